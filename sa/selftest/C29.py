"""Self-test variants for C29.

C29.5 (ShareFile.add_lease, ShareFile.cancel_lease) fires on the unchanged tree
(genuine findings registered in known_findings.json).  The breaking variant of
C29.5 creates the same defect in *another* construct so that a new key appears;
'repair-lease-offset-from-header' shows that the rule goes silent when the defect
is removed ('repair-mutable-record-before-count' is skipped since that repair
was applied to /repo).  C29.7 / C29.8 variants: the kept-open buffered writer of
seeded change C29-B and other ways of leaving bytes unwritten at the rename."""
from .runner import M

IMM = "src/allmydata/storage/immutable.py"
MUT = "src/allmydata/storage/mutable.py"
SRV = "src/allmydata/storage/server.py"
LEASE = "src/allmydata/storage/lease.py"
LSCH = "src/allmydata/storage/lease_schema.py"

# C29.9 (seeded change C29-F): the wrapper's renew override, and the type test under which the v2 serializer hashes
_H_RENEW = ("    def renew(self, new_expire_time):\n"
            "        # Preserve the HashedLeaseInfo wrapper around the renewed LeaseInfo.\n"
            "        return attr.assoc(\n"
            "            self,\n"
            "            _lease_info=super(HashedLeaseInfo, self).renew(new_expire_time),\n"
            "        )\n"
            "\n")
_SER_HASH = ("        if isinstance(lease, LeaseInfo):\n"
             "            # v2 of the immutable schema stores lease secrets hashed.  If\n")

_ADD = ("            new_lease_count = struct.pack(self._lease_count_format, num_leases + 1)\n"
        "            self._write_lease_record(f, num_leases, lease_info)\n"
        "            self._write_encoded_num_leases(f, new_lease_count)\n")

_CANCEL = ("                for i, lease in enumerate(leases):\n"
           "                    self._write_lease_record(f, i, lease)\n"
           "                self._write_num_leases(f, len(leases))\n"
           "                self._truncate_leases(f, len(leases))\n")

_MUT_ELSE = ("            # must add an extra lease record\n"
             "            self._write_num_extra_leases(f, num_extra_leases+1)\n"
             "            offset = (extra_lease_offset\n"
             "                      + 4\n"
             "                      + (lease_number-4)*self.LEASE_SIZE)\n"
             "        f.seek(offset)\n"
             "        assert f.tell() == offset\n"
             "        f.write(self._schema.lease_serializer.serialize(lease_info))\n")

_SEL = ("        for i,lease in enumerate(leases):\n"
        "            if lease.is_cancel_secret(cancel_secret):\n"
        "                leases[i] = None\n")
_MUT_TEST = ("        add_extra_lease = False\n"
             "        if lease_number < 4:\n"
             "            offset = self.HEADER_SIZE + lease_number * self.LEASE_SIZE\n"
             "        elif (lease_number-4) < num_extra_leases:\n")

# ---- C29.7 / C29.8: buffered file objects and the publishing rename
_WSD = ("        with open(self.home, 'rb+') as f:\n"
        "            real_offset = self._data_offset+offset\n"
        "            f.seek(real_offset)\n"
        "            assert f.tell() == real_offset\n"
        "            f.write(data)\n")
_WSD_KEPT = ("        if self._writer is None:\n"
             "            self._writer = open(self.home, 'rb+')\n"
             "        f = self._writer\n"
             "        real_offset = self._data_offset+offset\n"
             "        f.seek(real_offset)\n"
             "        assert f.tell() == real_offset\n"
             "        f.write(data)\n")
_INIT_TAIL = "        self._data_offset = 0xc\n\n    def get_length(self):"
_INIT_TAIL_KEPT = ("        self._data_offset = 0xc\n"
                   "        self._writer = None\n\n"
                   "    def close(self):\n"
                   "        if self._writer is not None:\n"
                   "            self._writer.close()\n"
                   "            self._writer = None\n\n"
                   "    def get_length(self):")
_READ = "        with open(self.home, 'rb') as f:\n            f.seek(seekpos)"
_READ_KEPT = ("        if self._writer is not None:\n"
              "            self._writer.flush()\n"
              "        with open(self.home, 'rb') as f:\n            f.seek(seekpos)")
_RENAME = "        fileutil.rename(self.incominghome, self.finalhome)\n"
_CLOSE_TAIL = "            pass\n        self._sharefile = None\n        self.closed = True\n"
_KEPT_EDITS = [(IMM, _WSD, _WSD_KEPT), (IMM, _READ, _READ_KEPT)]
_BW_WRITE = "    def write(self, offset, data):  # type: (int, bytes) -> bool\n"
_FILL = ("    def _fill_holes(self):\n"
         "        for (start, end, _) in self.required_ranges().ranges():\n"
         "            self._sharefile.write_share_data(start, b\"\\x00\" * (end - start))\n\n")

# the allocate_buckets loop restructured into 'collect the wanted shares, cut the list to what fits, create the
# writers in a second loop' (the faithful version of seeded refactor C28-I): the paths travel through a list of tuples
_ALLOC_LOOP = (
    '        for shnum in sharenums:\n'
    '            incominghome = os.path.join(self.incomingdir, si_dir, "%d" % shnum)\n'
    '            finalhome = os.path.join(self.sharedir, si_dir, "%d" % shnum)\n'
    '            if os.path.exists(finalhome):\n'
    '                # great! we already have it. easy.\n'
    '                pass\n'
    '            elif os.path.exists(incominghome):\n'
    "                # For Foolscap we don't create BucketWriters for shnums that\n"
    '                # have a partial share (in incoming/), so if a second upload\n'
    '                # occurs while the first is still in progress, the second\n'
    '                # uploader will use different storage servers.\n'
    '                pass\n'
    '            elif (not limited) or (remaining_space >= max_space_per_bucket):\n'
    '                # ok! we need to create the new share file.\n'
    '                bw = BucketWriter(self, incominghome, finalhome,\n'
    '                                  max_space_per_bucket, lease_info,\n'
    '                                  clock=self._clock)\n'
    '                if self.no_storage:\n'
    '                    # Really this should be done by having a separate class for\n'
    '                    # this situation; see\n'
    '                    # https://tahoe-lafs.org/trac/tahoe-lafs/ticket/3862\n'
    '                    bw.throw_out_all_data = True\n'
    '                bucketwriters[shnum] = bw\n'
    '                self._bucket_writers[incominghome] = bw\n'
    '                if limited:\n'
    '                    remaining_space -= max_space_per_bucket\n'
    '            else:\n'
    '                # bummer! not enough space to accept this bucket\n'
    '                pass\n'
    '\n'
)

_ALLOC_TWO_PASS = (
    '        # Work out which of the requested shares need a new BucketWriter. We\n'
    '        # skip the ones we already have (great! easy), and for Foolscap we\n'
    "        # also don't create BucketWriters for shnums that have a partial\n"
    '        # share (in incoming/), so if a second upload occurs while the first\n'
    '        # is still in progress, the second uploader will use different\n'
    '        # storage servers.\n'
    '        wanted = []\n'
    '        for shnum in sharenums:\n'
    '            incominghome = os.path.join(self.incomingdir, si_dir, "%d" % shnum)\n'
    '            finalhome = os.path.join(self.sharedir, si_dir, "%d" % shnum)\n'
    '            if os.path.exists(finalhome) or os.path.exists(incominghome):\n'
    '                continue\n'
    '            wanted.append((shnum, incominghome, finalhome))\n'
    '\n'
    '        if limited:\n'
    '            # every new bucket reserves max_space_per_bucket, so only this\n'
    '            # many of them fit in what is left. bummer for the rest: not\n'
    '            # enough space to accept them.\n'
    '            if max_space_per_bucket > 0:\n'
    '                wanted = wanted[:max(0, remaining_space // max_space_per_bucket)]\n'
    '            elif remaining_space < 0:\n'
    '                wanted = []\n'
    '\n'
    '        for (shnum, incominghome, finalhome) in wanted:\n'
    '            # ok! we need to create the new share file.\n'
    '            bw = BucketWriter(self, incominghome, finalhome,\n'
    '                              max_space_per_bucket, lease_info,\n'
    '                              clock=self._clock)\n'
    '            if self.no_storage:\n'
    '                # Really this should be done by having a separate class for\n'
    '                # this situation; see\n'
    '                # https://tahoe-lafs.org/trac/tahoe-lafs/ticket/3862\n'
    '                bw.throw_out_all_data = True\n'
    '            bucketwriters[shnum] = bw\n'
    '            self._bucket_writers[incominghome] = bw\n'
    '\n'
)

# cancel_lease rewritten with comprehensions, rewriting only the records behind the first cancelled one (the faithful
# version of seeded refactor C26-I: the tail is numbered from the slot of the first cancelled lease)
_CANCEL_BODY = (
    '        num_leases_removed = 0\n'
    '        for i,lease in enumerate(leases):\n'
    '            if lease.is_cancel_secret(cancel_secret):\n'
    '                leases[i] = None\n'
    '                num_leases_removed += 1\n'
    '        if not num_leases_removed:\n'
    '            raise IndexError("unable to find matching lease to cancel")\n'
    '        if num_leases_removed:\n'
    '            # pack and write out the remaining leases. We write these out in\n'
    '            # the same order as they were added, so that if we crash while\n'
    "            # doing this, we won't lose any non-cancelled leases.\n"
    '            leases = [l for l in leases if l] # remove the cancelled leases\n'
    "            with open(self.home, 'rb+') as f:\n"
    '                for i, lease in enumerate(leases):\n'
    '                    self._write_lease_record(f, i, lease)\n'
    '                self._write_num_leases(f, len(leases))\n'
    '                self._truncate_leases(f, len(leases))\n'
    '        space_freed = self.LEASE_SIZE * num_leases_removed\n'
    '        if not len(leases):\n'
)

_CANCEL_TAIL_ONLY = (
    '        cancelled = [i for (i, lease) in enumerate(leases)\n'
    '                     if lease.is_cancel_secret(cancel_secret)]\n'
    '        if not cancelled:\n'
    '            raise IndexError("unable to find matching lease to cancel")\n'
    '        remaining = [lease for (i, lease) in enumerate(leases)\n'
    '                     if i not in cancelled]\n'
    '        # pack and write out the remaining leases. The records in front of\n'
    '        # the first cancelled lease already sit in their final slot, only the\n'
    '        # ones behind it move down. We write these out in the same order as\n'
    "        # they were added, so that if we crash while doing this, we won't\n"
    '        # lose any non-cancelled leases.\n'
    '        first = cancelled[0]\n'
    "        with open(self.home, 'rb+') as f:\n"
    '            for i, lease in enumerate(remaining[first:], first):\n'
    '                self._write_lease_record(f, i, lease)\n'
    '            self._write_num_leases(f, len(remaining))\n'
    '            self._truncate_leases(f, len(remaining))\n'
    '        space_freed = self.LEASE_SIZE * len(cancelled)\n'
    '        if not remaining:\n'
)

MUTANTS = [
    # ---- C29.1 add_lease ordering
    M("count-before-record", IMM, _ADD,
      "            new_lease_count = struct.pack(self._lease_count_format, num_leases + 1)\n"
      "            self._write_encoded_num_leases(f, new_lease_count)\n"
      "            self._write_lease_record(f, num_leases, lease_info)\n", "C29.1"),
    M("encodability-check-after-write", IMM, _ADD,
      "            self._write_lease_record(f, num_leases, lease_info)\n"
      "            self._write_num_leases(f, num_leases + 1)\n", "C29.1"),
    M("new-lease-overwrites-slot", IMM,
      "            self._write_lease_record(f, num_leases, lease_info)\n            self._write_encoded",
      "            self._write_lease_record(f, num_leases - 1, lease_info)\n            self._write_encoded", "C29.1"),
    M("count-not-incremented", IMM,
      "            new_lease_count = struct.pack(self._lease_count_format, num_leases + 1)",
      "            new_lease_count = struct.pack(self._lease_count_format, num_leases)", "C29.1"),
    # ---- C29.2 cancel_lease ordering
    M("truncate-before-count", IMM, _CANCEL,
      "                for i, lease in enumerate(leases):\n"
      "                    self._write_lease_record(f, i, lease)\n"
      "                self._truncate_leases(f, len(leases))\n"
      "                self._write_num_leases(f, len(leases))\n", "C29.2"),
    M("count-before-records", IMM, _CANCEL,
      "                self._write_num_leases(f, len(leases))\n"
      "                for i, lease in enumerate(leases):\n"
      "                    self._write_lease_record(f, i, lease)\n"
      "                self._truncate_leases(f, len(leases))\n", "C29.2"),
    M("truncate-one-too-many", IMM,
      "                self._truncate_leases(f, len(leases))\n",
      "                self._truncate_leases(f, len(leases) - 1)\n", "C29.2"),
    M("unlink-when-any-removed", IMM,
      "        if not len(leases):\n            space_freed += os.stat(self.home)[stat.ST_SIZE]",
      "        if num_leases_removed:\n            space_freed += os.stat(self.home)[stat.ST_SIZE]", "C29.2"),
    M("mutable-unlink-when-modified", MUT,
      "                if not remaining:\n                    freed_space += os.stat(self.home)[stat.ST_SIZE]",
      "                if modified:\n                    freed_space += os.stat(self.home)[stat.ST_SIZE]", "C29.2"),
    M("mutable-remaining-miscounted", MUT,
      "                    modified += 1\n                else:\n                    remaining += 1\n",
      "                    modified += 1\n                elif lease.get_expiration_time() > 0:\n                    remaining += 1\n",
      "C29.2"),
    # ---- C29.3 start-up
    M("incoming-not-cleaned", SRV,
      "        self._clean_incomplete()\n        fileutil.make_dirs(self.incomingdir)",
      "        fileutil.make_dirs(self.incomingdir)", "C29.3"),
    M("incoming-cleaned-only-when-writable", SRV,
      "        self._clean_incomplete()\n        fileutil.make_dirs(self.incomingdir)",
      "        if not self.readonly_storage:\n            self._clean_incomplete()\n        fileutil.make_dirs(self.incomingdir)",
      "C29.3"),
    M("clean-wrong-directory", SRV,
      "        fileutil.rm_dir(self.incomingdir)", "        fileutil.rm_dir(os.path.join(self.incomingdir, 'tmp'))", "C29.3"),
    # ---- C29.4 regions
    M("lease-record-in-data-region", IMM,
      "        offset = self._lease_offset + lease_number * self.LEASE_SIZE\n        f.seek(offset)",
      "        offset = self._data_offset + lease_number * self.LEASE_SIZE\n        f.seek(offset)", "C29.4"),
    M("count-at-data-start", IMM,
      "    def _write_encoded_num_leases(self, f, encoded_num_leases):\n        f.seek(0x08)",
      "    def _write_encoded_num_leases(self, f, encoded_num_leases):\n        f.seek(0x0c)", "C29.4"),
    M("count-format-8-bytes", IMM,
      "    if struct.calcsize(fixed) > 4:", "    if struct.calcsize(fixed) > 8:", "C29.4"),
    M("truncate-ignores-data", IMM,
      "        f.truncate(self._lease_offset + num_leases * self.LEASE_SIZE)",
      "        f.truncate(num_leases * self.LEASE_SIZE)", "C29.4"),
    M("renew-opens-truncating", IMM,
      "                    lease = lease.renew(new_expire_time)\n                    with open(self.home, 'rb+') as f:",
      "                    lease = lease.renew(new_expire_time)\n                    with open(self.home, 'wb+') as f:", "C29.4"),
    M("mutable-fifth-lease-in-header", MUT,
      "    def _write_lease_record(self, f, lease_number, lease_info):\n"
      "        extra_lease_offset = self._read_extra_lease_offset(f)\n"
      "        num_extra_leases = self._read_num_extra_leases(f)\n"
      "        add_extra_lease = False\n"
      "        if lease_number < 4:",
      "    def _write_lease_record(self, f, lease_number, lease_info):\n"
      "        extra_lease_offset = self._read_extra_lease_offset(f)\n"
      "        num_extra_leases = self._read_num_extra_leases(f)\n"
      "        add_extra_lease = False\n"
      "        if lease_number <= 4:", "C29.4"),
    M("mutable-add-lease-grows-container", MUT,
      "                self._write_lease_record(f, num_lease_slots, lease_info)\n",
      "                self._change_container_size(f, self._read_data_length(f) + self.LEASE_SIZE)\n"
      "                self._write_lease_record(f, num_lease_slots, lease_info)\n", "C29.4"),
    # ---- C29.5 the same window created in another method (new key)
    M("add-lease-inlined-into-add-or-renew", IMM,
      "                raise NoSpace()\n            self.add_lease(lease_info)\n",
      "                raise NoSpace()\n"
      "            with open(self.home, 'rb+') as f:\n"
      "                num_leases = self._read_num_leases(f)\n"
      "                self._write_lease_record(f, num_leases, lease_info)\n"
      "                self._write_num_leases(f, num_leases + 1)\n", "C29.5"),
    # ---- C29.6 the same order created in another method (new key)
    M("mutable-slot-preallocated-in-add-lease", MUT,
      "                    raise NoSpace()\n                self._write_lease_record(f, num_lease_slots, lease_info)\n",
      "                    raise NoSpace()\n"
      "                self._write_num_extra_leases(f, num_lease_slots - 4 + 1)\n"
      "                self._write_lease_record(f, num_lease_slots, lease_info)\n", "C29.6"),
    # ---- C29.7 nothing pending in a write buffer when the share is published
    M("kept-writer-closed-after-rename", IMM, _INIT_TAIL, _INIT_TAIL_KEPT, "C29.7",     # the seeded mechanism (C29-B)
      edits=_KEPT_EDITS + [(IMM, _CLOSE_TAIL, "            pass\n        self._sharefile.close()\n"
                                              "        self._sharefile = None\n        self.closed = True\n")]),
    M("kept-writer-flushed-only-when-finished", IMM, _INIT_TAIL, _INIT_TAIL_KEPT, "C29.7",
      edits=_KEPT_EDITS + [(IMM, _RENAME, "        if self._is_finished():\n            self._sharefile.close()\n" + _RENAME),
                           (IMM, _CLOSE_TAIL, "            pass\n        self._sharefile.close()\n"
                                              "        self._sharefile = None\n        self.closed = True\n")]),
    M("kept-writer-left-to-garbage-collection", IMM, _INIT_TAIL,
      "        self._data_offset = 0xc\n        self._writer = None\n\n    def get_length(self):", "C29.7",
      edits=[(IMM, _WSD,
              "        if self._writer is None:\n"
              "            fobj = open(self.home, 'rb+')\n"
              "            self._writer = fobj\n"
              "        f = self._writer\n"
              "        real_offset = self._data_offset+offset\n"
              "        f.seek(real_offset)\n"
              "        assert f.tell() == real_offset\n"
              "        f.write(data)\n"),
             (IMM, _READ, _READ_KEPT)]),
    M("kept-writer-rewritten-between-flush-and-rename", IMM, _INIT_TAIL, _INIT_TAIL_KEPT, "C29.7",
      edits=_KEPT_EDITS + [(IMM, _RENAME, "        self._sharefile.close()\n"
                                          "        self._sharefile.write_share_data(self._max_size - 1, "
                                          "self._sharefile.read_share_data(self._max_size - 1, 1))\n" + _RENAME)]),
    M("bucket-writer-keeps-own-file-object", IMM,
      "        self._sharefile.add_lease(lease_info)\n        self._already_written = RangeMap()\n",
      "        self._sharefile.add_lease(lease_info)\n        self._data_file = open(incominghome, 'rb+')\n"
      "        self._already_written = RangeMap()\n", "C29.7",
      edits=[(IMM, "        self._sharefile.write_share_data(offset, data)\n",
              "        self._data_file.seek(0xc + offset)\n        self._data_file.write(data)\n"),
             (IMM, _CLOSE_TAIL, "            pass\n        self._data_file.close()\n"
                                "        self._sharefile = None\n        self.closed = True\n")]),
    M("benign-kept-writer-closed-before-rename", IMM, _INIT_TAIL, _INIT_TAIL_KEPT, None,
      edits=_KEPT_EDITS + [(IMM, _RENAME, "        self._sharefile.close()\n" + _RENAME)]),
    M("benign-kept-writer-flushed-by-helper-before-rename", IMM, _INIT_TAIL, _INIT_TAIL_KEPT, None,
      edits=_KEPT_EDITS + [(IMM, _RENAME, "        self._finish_writing()\n" + _RENAME),
                           (IMM, _BW_WRITE, "    def _finish_writing(self):\n        sf = self._sharefile\n"
                                            "        sf.close()\n\n" + _BW_WRITE)]),
    M("benign-write-share-data-try-finally", IMM, _WSD,
      "        f = open(self.home, 'rb+')\n"
      "        try:\n"
      "            real_offset = self._data_offset+offset\n"
      "            f.seek(real_offset)\n"
      "            assert f.tell() == real_offset\n"
      "            f.write(data)\n"
      "        finally:\n"
      "            f.close()\n", None),
    M("benign-open-through-helper", IMM, _WSD,
      "        with self._open_rw() as f:\n"
      "            real_offset = self._data_offset+offset\n"
      "            f.seek(real_offset)\n"
      "            assert f.tell() == real_offset\n"
      "            f.write(data)\n\n"
      "    def _open_rw(self):\n"
      "        return open(self.home, 'rb+')\n", None),
    # ---- C29.8 nothing writes share data after the share was published
    M("holes-filled-after-rename", IMM, _CLOSE_TAIL,
      "            pass\n"
      "        self._sharefile.home = self.finalhome\n"
      "        for (hole_start, hole_end, _) in self.required_ranges().ranges():\n"
      "            self._sharefile.write_share_data(hole_start, b\"\\x00\" * (hole_end - hole_start))\n"
      "        self._sharefile = None\n        self.closed = True\n", "C29.8"),
    M("fill-helper-called-after-rename", IMM, _RENAME,
      _RENAME + "        self._sharefile.home = self.finalhome\n        self._fill_holes()\n", "C29.8",
      edits=[(IMM, _BW_WRITE, _FILL + _BW_WRITE)]),
    M("benign-fill-helper-called-before-rename", IMM, _RENAME, "        self._fill_holes()\n" + _RENAME, None,
      edits=[(IMM, _BW_WRITE, _FILL + _BW_WRITE)]),
    M("vanish-no-publishing-rename", IMM, _RENAME, "        shutil.copyfile(self.incominghome, self.finalhome)\n",
      "ANALYSIS-ERROR"),
    # ---- gap review (mutation sweep survivors)
    # C29.2: which leases cancel_lease drops
    M("cancel-drops-non-matching-leases", IMM, _SEL,
      "        for i,lease in enumerate(leases):\n"
      "            if not lease.is_cancel_secret(cancel_secret):\n"
      "                leases[i] = None\n", "C29.2"),
    M("cancel-drops-unconditionally", IMM, _SEL,
      "        for i,lease in enumerate(leases):\n"
      "            leases[i] = None\n"
      "            if lease.is_cancel_secret(cancel_secret):\n", "C29.2"),
    M("cancel-blanks-neighbour", IMM, _SEL,
      "        for i,lease in enumerate(leases):\n"
      "            if lease.is_cancel_secret(cancel_secret):\n"
      "                leases[i - 1] = None\n", "C29.2"),
    M("benign-cancel-selection-continue", IMM, _SEL,
      "        for slot, candidate in enumerate(leases):\n"
      "            if not candidate.is_cancel_secret(cancel_secret):\n"
      "                continue\n"
      "            if True:\n"
      "                leases[slot] = None\n", None),
    M("benign-cancel-selection-comprehension", IMM,
      "            leases = [l for l in leases if l] # remove the cancelled leases\n",
      "            leases = [l for l in leases if l]\n"
      "            leases = [l for l in leases if not l.is_cancel_secret(cancel_secret)]\n", None),
    # C29.3: what is removed at start-up
    M("incoming-join-arguments-swapped", SRV,
      "        self.incomingdir = os.path.join(sharedir, 'incoming')",
      "        self.incomingdir = os.path.join('incoming', sharedir)", "C29.3"),
    M("incoming-is-the-share-directory", SRV,
      "        self.incomingdir = os.path.join(sharedir, 'incoming')",
      "        self.incomingdir = os.path.join(sharedir, '')", "C29.3"),
    M("incoming-rebound-after-cleaning", SRV,
      "        self._clean_incomplete()\n        fileutil.make_dirs(self.incomingdir)",
      "        self._clean_incomplete()\n        self.incomingdir = os.path.join(sharedir, 'incoming', 'tmp')\n"
      "        fileutil.make_dirs(self.incomingdir)", "C29.3"),
    M("partial-upload-outside-incoming", SRV,
      "            incominghome = os.path.join(self.incomingdir, si_dir, \"%d\" % shnum)",
      "            incominghome = os.path.join(self.sharedir, si_dir, \"%d.partial\" % shnum)", "C29.3"),
    M("benign-incoming-hoisted", SRV,
      "        self.incomingdir = os.path.join(sharedir, 'incoming')",
      "        incoming_name = 'incoming'\n        incoming = os.path.join(sharedir, incoming_name)\n"
      "        self.incomingdir = incoming", None),
    M("benign-incominghome-inlined", SRV,
      "                bw = BucketWriter(self, incominghome, finalhome,",
      "                bw = BucketWriter(self, os.path.join(self.incomingdir, si_dir, str(shnum)), finalhome,", None),
    # C29.4: the data region between the count field and the lease area
    M("data-overlaps-first-lease-record", IMM,
      "        self._data_offset = 0xc\n", "        self._data_offset = 13\n", "C29.4"),
    M("data-starts-inside-header", IMM,
      "        self._data_offset = 0xc\n", "        self._data_offset = 0x8\n", "C29.4"),
    M("new-share-lease-area-inside-data", IMM,
      "            self._lease_offset = max_size + 0x0c\n", "            self._lease_offset = max_size\n", "C29.4"),
    M("benign-layout-constants-rewritten", IMM,
      "            self._lease_offset = max_size + 0x0c\n", "            self._lease_offset = 12 + max_size\n", None,
      edits=[(IMM, "        self._data_offset = 0xc\n", "        header_size = struct.calcsize(\">LLL\")\n"
                                                      "        self._data_offset = header_size\n")]),
    # C29.6: when and by how much the extra-lease count grows
    M("mutable-count-raised-for-header-slots", MUT,
      "        if add_extra_lease:\n", "        if not add_extra_lease:\n", "C29.6"),
    M("mutable-count-raised-for-existing-slot", MUT, _MUT_TEST,
      "        add_extra_lease = False\n"
      "        if lease_number < 4:\n"
      "            offset = self.HEADER_SIZE + lease_number * self.LEASE_SIZE\n"
      "        elif (lease_number-4) >= num_extra_leases:\n", "C29.6"),
    M("mutable-count-raised-by-two", MUT,
      "            self._write_num_extra_leases(f, num_extra_leases+1)\n",
      "            self._write_num_extra_leases(f, num_extra_leases+2)\n", "C29.6"),
    M("mutable-flag-set-before-the-test", MUT,
      "        add_extra_lease = False\n        if lease_number < 4:\n",
      "        add_extra_lease = lease_number >= 4\n        if lease_number < 4:\n", "C29.6"),
    M("benign-mutable-slot-test-rewritten", MUT, _MUT_TEST,
      "        add_extra_lease = False\n"
      "        if lease_number < 4:\n"
      "            offset = self.HEADER_SIZE + lease_number * self.LEASE_SIZE\n"
      "        elif num_extra_leases > lease_number - 4:\n", None,
      edits=[(MUT, "            self._write_num_extra_leases(f, num_extra_leases+1)\n",
              "            grown = 1 + num_extra_leases\n            self._write_num_extra_leases(f, grown)\n")]),
    M("benign-mutable-count-guarded-without-flag", MUT,
      "        if add_extra_lease:\n",
      "        if lease_number >= 4 and (lease_number-4) >= num_extra_leases:\n", None),
    M("benign-mutable-count-from-slot-number", MUT,
      "            self._write_num_extra_leases(f, num_extra_leases+1)\n",
      "            self._write_num_extra_leases(f, lease_number - 3)\n", None),
    # ---- benign
    M("benign-inline-new-count", IMM, _ADD,
      "            encoded = struct.pack(self._lease_count_format, 1 + num_leases)\n"
      "            slot = num_leases\n"
      "            self._write_lease_record(f, slot, lease_info)\n"
      "            self._write_encoded_num_leases(f, encoded)\n", None),
    M("benign-cancel-count-temp", IMM, _CANCEL,
      "                kept = len(leases)\n"
      "                for i, lease in enumerate(leases):\n"
      "                    self._write_lease_record(f, i, lease)\n"
      "                self._write_num_leases(f, kept)\n"
      "                self._truncate_leases(f, kept)\n", None),
    M("benign-record-offset-commuted", IMM,
      "        offset = self._lease_offset + lease_number * self.LEASE_SIZE\n        f.seek(offset)",
      "        offset = self.LEASE_SIZE * lease_number + self._lease_offset\n        f.seek(offset)", None),
    M("benign-clean-after-mkdir", SRV,
      "        self._clean_incomplete()\n        fileutil.make_dirs(self.incomingdir)",
      "        fileutil.make_dirs(self.incomingdir)\n        self._clean_incomplete()", None),
    M("benign-header-slot-test-form", MUT,
      "    def _write_lease_record(self, f, lease_number, lease_info):\n"
      "        extra_lease_offset = self._read_extra_lease_offset(f)\n"
      "        num_extra_leases = self._read_num_extra_leases(f)\n"
      "        add_extra_lease = False\n"
      "        if lease_number < 4:",
      "    def _write_lease_record(self, f, lease_number, lease_info):\n"
      "        extra_lease_offset = self._read_extra_lease_offset(f)\n"
      "        num_extra_leases = self._read_num_extra_leases(f)\n"
      "        add_extra_lease = False\n"
      "        if not (lease_number >= 4):", None),
    # repairs: the findings disappear, nothing else fires
    M("repair-mutable-record-before-count", MUT, _MUT_ELSE,
      "            # must add an extra lease record\n"
      "            offset = (extra_lease_offset\n"
      "                      + 4\n"
      "                      + (lease_number-4)*self.LEASE_SIZE)\n"
      "        f.seek(offset)\n"
      "        assert f.tell() == offset\n"
      "        f.write(self._schema.lease_serializer.serialize(lease_info))\n"
      "        if lease_number >= 4 and (lease_number-4) >= num_extra_leases:\n"
      "            self._write_num_extra_leases(f, num_extra_leases+1)\n", None),
    M("repair-lease-offset-from-header", IMM,
      "            self._lease_offset = filesize - (num_leases * self.LEASE_SIZE)\n"
      "            self._length = filesize - 0xc - (num_leases * self.LEASE_SIZE)\n",
      "            self._lease_offset = 0xc + unused\n"
      "            self._length = unused\n", None),
    # ---- C29.9 a renewal keeps the lease it rewrites (no second hashing of stored secrets)
    M("renew-override-removed-as-redundant", LEASE, _H_RENEW, "", "C29.9"),
    M("renew-override-returns-wrapped-lease", LEASE, _H_RENEW,
      "    def renew(self, new_expire_time):\n        return super(HashedLeaseInfo, self).renew(new_expire_time)\n\n", "C29.9"),
    M("renew-override-copies-the-wrapped-lease", LEASE, _H_RENEW,
      "    def renew(self, new_expire_time):\n"
      "        return attr.assoc(self._lease_info, _expiration_time=new_expire_time)\n\n", "C29.9"),
    M("serializer-hashes-whatever-has-secrets", LSCH, _SER_HASH,
      _SER_HASH.replace("isinstance(lease, LeaseInfo)", "isinstance(lease, (LeaseInfo, HashedLeaseInfo))"), "C29.9"),
    M("mutable-renewal-rebuilds-the-record", MUT, "                        lease = lease.renew(new_expire_time)\n",
      "                        lease = LeaseInfo(lease.owner_num, renew_secret, lease.cancel_secret,\n"
      "                                          new_expire_time, lease.nodeid)\n", "C29.9"),
    M("benign-renew-wraps-anew", LEASE, _H_RENEW,
      "    def renew(self, new_expire_time):\n        renewed = self._lease_info.renew(new_expire_time)\n"
      "        return HashedLeaseInfo(renewed, self._hash)\n\n", None),
    M("benign-serializer-tests-for-the-wrapper", LSCH, _SER_HASH,
      _SER_HASH.replace("isinstance(lease, LeaseInfo)", "not isinstance(lease, HashedLeaseInfo)"), None),
    M("benign-renewed-lease-in-a-temporary", MUT, "                        lease = lease.renew(new_expire_time)\n"
      "                        self._write_lease_record(f, leasenum, lease)\n",
      "                        renewed = lease.renew(new_expire_time)\n"
      "                        self._write_lease_record(f, leasenum, renewed)\n", None),
    # ---- vanished anchor
    M("vanish-hashed-serializer", LSCH, "class HashedLeaseSerializer:", "class HashedLeaseSerializerV2:", "ANALYSIS-ERROR",
      edits=[(LSCH, "v2_immutable = HashedLeaseSerializer(", "v2_immutable = HashedLeaseSerializerV2("),
             (LSCH, "v2_mutable = HashedLeaseSerializer(", "v2_mutable = HashedLeaseSerializerV2(")]),
    # ---- refactored shape: paths carried from a first loop to the BucketWriter call through a list of tuples
    M("benign-alloc-two-pass-faithful", SRV, _ALLOC_LOOP, _ALLOC_TWO_PASS, None),
    M("two-pass-tuple-order-swapped", SRV, _ALLOC_LOOP,
      _ALLOC_TWO_PASS.replace("wanted.append((shnum, incominghome, finalhome))", "wanted.append((shnum, finalhome, incominghome))"),
      "C29.3"),
    M("two-pass-partial-upload-outside-incoming", SRV, _ALLOC_LOOP,
      _ALLOC_TWO_PASS.replace("os.path.join(self.incomingdir, si_dir,", "os.path.join(self.sharedir, si_dir, \"partial\","),
      "C29.3"),
    M("benign-cancel-tail-only-faithful", IMM, _CANCEL_BODY, _CANCEL_TAIL_ONLY, None),
    M("benign-cancel-tail-only-start-keyword", IMM, _CANCEL_BODY,
      _CANCEL_TAIL_ONLY.replace("enumerate(remaining[first:], first)", "enumerate(remaining[first:], start=first)"), None),
    M("cancel-tail-written-from-slot-0", IMM, _CANCEL_BODY,          # the seeded slip (C26-I)
      _CANCEL_TAIL_ONLY.replace("enumerate(remaining[first:], first)", "enumerate(remaining[first:])"), "C29.2"),
    M("cancel-tail-numbered-one-too-high", IMM, _CANCEL_BODY,
      _CANCEL_TAIL_ONLY.replace("enumerate(remaining[first:], first)", "enumerate(remaining[first:], first + 1)"), "C29.2"),
    M("cancel-tail-only-keeps-the-cancelled", IMM, _CANCEL_BODY,
      _CANCEL_TAIL_ONLY.replace("if i not in cancelled]", "if i in cancelled]"), "ANALYSIS-ERROR"),
    M("cancel-tail-from-last-cancelled", IMM, _CANCEL_BODY,
      _CANCEL_TAIL_ONLY.replace("first = cancelled[0]", "first = cancelled[-1]"), "ANALYSIS-ERROR"),
    M("cancel-tail-only-unlink-when-any-cancelled", IMM, _CANCEL_BODY,
      _CANCEL_TAIL_ONLY.replace("        if not remaining:\n", "        if cancelled:\n"), "C29.2"),
    M("vanish-clean-incomplete", SRV, "    def _clean_incomplete(self):", "    def _clean_partial(self):", "ANALYSIS-ERROR"),
]
