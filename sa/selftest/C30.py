from .runner import M

F = "src/allmydata/storage/http_server.py"

SWISS = ("                    if not timing_safe_compare(\n"
         "                        auth_header,\n"
         "                        swissnum_auth_header(self._swissnum),\n"
         "                    ):\n")
SWISS_RAISE = ("                        raise _HTTPError(\n"
               "                            http.UNAUTHORIZED, \"Wrong Authorization header\"\n"
               "                        )\n")

MUTANTS = [
    # ---- C30.1 registration closure
    M("bare-klein-route", F,
      "    @_authorized_route(_app, set(), \"/storage/v1/version\", methods=[\"GET\"])\n"
      "    def version(self, request: Request, authorization: SecretsDict) -> KleinRenderable:",
      "    @_app.route(\"/storage/v1/version\", methods=[\"GET\"])\n"
      "    def version(self, request: Request, authorization: SecretsDict = {}) -> KleinRenderable:", "C30.1"),
    M("auth-decorator-outside-route", F,
      "        @klein_app.route(url, *route_args, branch=branch, **route_kwargs)  # type: ignore[arg-type]\n"
      "        @_authorization_decorator(required_secrets)\n",
      "        @_authorization_decorator(required_secrets)\n"
      "        @klein_app.route(url, *route_args, branch=branch, **route_kwargs)  # type: ignore[arg-type]\n", "C30.1"),
    M("factory-returns-unwrapped", F,
      "        return route\n\n    return decorator", "        return f\n\n    return decorator", "C30.1"),
    M("route-with-fixed-secret-set", F,
      "        @_authorization_decorator(required_secrets)\n", "        @_authorization_decorator(set())\n", "C30.1"),
    M("second-route-alias", F,
      "    _add_error_handling(_app)\n",
      "    _add_error_handling(_app)\n    _debug = _app.route(\"/storage/v1/debug\")(lambda self, request: b\"\")\n", "C30.1"),
    # ---- C30.2 domination of the handler call
    M("swissnum-check-deleted", F, SWISS + SWISS_RAISE, "", "C30.2"),
    M("swissnum-polarity-flipped", F,
      "                    if not timing_safe_compare(\n                        auth_header,",
      "                    if timing_safe_compare(\n                        auth_header,", "C30.2"),
    M("swissnum-plain-compare", F, SWISS,
      "                    if auth_header != swissnum_auth_header(self._swissnum):\n", "C30.2"),
    M("swissnum-prefix-compare", F,
      "                        auth_header,\n                        swissnum_auth_header(self._swissnum),\n",
      "                        auth_header[:11],\n                        swissnum_auth_header(self._swissnum)[:11],\n", "C30.2"),
    M("secrets-error-swallowed", F,
      "                    except ClientSecretsException as e:\n                        raise _HTTPError(http.BAD_REQUEST, str(e))\n",
      "                    except ClientSecretsException as e:\n                        secrets = {}\n", "C30.2"),
    M("wrong-header-not-401", F,
      "                            http.UNAUTHORIZED, \"Wrong Authorization header\"",
      "                            http.NOT_FOUND, \"Wrong Authorization header\"", "C30.2"),
    M("required-secrets-ignored", F,
      "                        secrets = _extract_secrets(authorization, required_secrets)",
      "                        secrets = _extract_secrets(authorization, set(s for s in Secrets if s.value in str(authorization)))", "C30.2"),
    M("unicode-error-falls-through", F,
      "                    except UnicodeError:\n                        raise _HTTPError(http.BAD_REQUEST, \"Bad Authorization header\")\n",
      "                    except UnicodeError:\n                        auth_header = b\"\"\n", None,
      note="still compared with the swissnum header afterwards: harmless"),
    # ---- C30.6 no effect before authorization
    M("stat-counter-before-auth", F,
      "            request.defaultContentType = None  # type: ignore[assignment]\n",
      "            request.defaultContentType = None  # type: ignore[assignment]\n"
      "            self._storage_server.count(\"http-request\")\n", "C30.6"),
    M("uploads-peek-in-log-fields", F,
      "                method=request.method,\n                path=request.path,\n            ) as ctx:",
      "                method=request.method,\n                path=request.path,\n"
      "                uploads=len(self._uploads._uploads),\n            ) as ctx:", ["C30.6", "C30.4"]),
    # ---- C30.3 _extract_secrets
    M("extra-secrets-tolerated", F,
      "    if result.keys() != required_secrets:", "    if not (required_secrets <= result.keys()):", "C30.3"),
    M("lease-length-check-dropped", F,
      "            if key in (Secrets.LEASE_CANCEL, Secrets.LEASE_RENEW) and len(value) != 32:\n"
      "                raise ClientSecretsException(\"Lease secrets must be 32 bytes long\")\n", "", "C30.3"),
    M("lease-length-only-renew", F,
      "            if key in (Secrets.LEASE_CANCEL, Secrets.LEASE_RENEW) and len(value) != 32:",
      "            if key in (Secrets.LEASE_RENEW,) and len(value) != 32:", "C30.3"),
    M("empty-secret-accepted", F,
      "            if value == b\"\":\n                raise ClientSecretsException(\n"
      "                    \"Failed to decode secret {}\".format(string_key)\n                )\n", "", "C30.3"),
    M("malformed-header-skipped", F,
      "    except (ValueError, KeyError):\n        raise ClientSecretsException(\"Bad header value(s): {}\".format(header_values))\n",
      "    except (ValueError, KeyError):\n        pass\n", "C30.3"),
    # ---- C30.4 upload secret
    M("get-write-bucket-unvalidated", F,
      "        self.validate_upload_secret(storage_index, share_number, upload_secret)\n", "", "C30.4"),
    M("upload-secret-compare-flipped", F,
      "            if share_number in in_progress.upload_secrets and not timing_safe_compare(",
      "            if share_number in in_progress.upload_secrets and timing_safe_compare(", "C30.4"),
    M("upload-secret-compared-with-itself", F,
      "                in_progress.upload_secrets[share_number], upload_secret\n",
      "                in_progress.upload_secrets[share_number], in_progress.upload_secrets[share_number]\n", "C30.4"),
    M("upload-secret-not-stored", F,
      "        si_uploads.upload_secrets[share_number] = upload_secret\n", "", "C30.4"),
    M("secret-forgotten-writer-kept", F,
      "        uploads_index.shares.pop(share_number)\n", "", "C30.4"),
    M("write-route-reaches-into-table", F,
      "        bucket = self._uploads.get_write_bucket(\n            storage_index, share_number, authorization[Secrets.UPLOAD]\n"
      "        )\n        offset = content_range.start or 0",
      "        bucket = self._uploads._uploads[storage_index].shares[share_number]\n        offset = content_range.start or 0",
      "C30.4"),
    M("abort-route-without-upload-secret", F,
      "        {Secrets.UPLOAD},\n        \"/storage/v1/immutable/<storage_index:storage_index>/<int(signed=False):share_number>/abort\",",
      "        set(),\n        \"/storage/v1/immutable/<storage_index:storage_index>/<int(signed=False):share_number>/abort\",",
      ["C30.4", "C30.5"],
      edits=[(F, "                storage_index, share_number, authorization[Secrets.UPLOAD]\n            )\n        except _HTTPError as e:",
              "                storage_index, share_number, authorization.get(Secrets.UPLOAD, b\"\")\n            )\n        except _HTTPError as e:")]),
    M("writers-registered-under-lease-secret", F,
      "        upload_secret = authorization[Secrets.UPLOAD]\n", "        upload_secret = authorization[Secrets.LEASE_RENEW]\n", "C30.4"),
    M("abort-writer-from-backend", F,
      "        # Abort the upload; this should close it which will eventually result\n",
      "        bucket = self._storage_server._bucket_writers.get(bucket, bucket)\n", "C30.4"),
    # ---- C30.5 routing of secrets to the backend
    M("lease-secrets-swapped", F,
      "            authorization[Secrets.LEASE_RENEW],\n            authorization[Secrets.LEASE_CANCEL],\n        )\n\n"
      "        request.setResponseCode(http.NO_CONTENT)",
      "            authorization[Secrets.LEASE_CANCEL],\n            authorization[Secrets.LEASE_RENEW],\n        )\n\n"
      "        request.setResponseCode(http.NO_CONTENT)", "C30.5"),
    M("write-enabler-not-first", F,
      "        secrets = (\n            authorization[Secrets.WRITE_ENABLER],\n            authorization[Secrets.LEASE_RENEW],\n",
      "        secrets = (\n            authorization[Secrets.LEASE_RENEW],\n            authorization[Secrets.WRITE_ENABLER],\n", "C30.5"),
    M("mutable-write-without-write-enabler", F,
      "        {Secrets.LEASE_RENEW, Secrets.LEASE_CANCEL, Secrets.WRITE_ENABLER},\n",
      "        {Secrets.LEASE_RENEW, Secrets.LEASE_CANCEL},\n", "C30.5"),
    M("bad-write-enabler-not-401", F,
      "        except BadWriteEnablerError:\n            raise _HTTPError(http.UNAUTHORIZED)",
      "        except BadWriteEnablerError:\n            raise _HTTPError(http.BAD_REQUEST)", "C30.5"),
    M("allocate-cancel-secret-from-renew", F,
      "            cancel_secret=authorization[Secrets.LEASE_CANCEL],", "            cancel_secret=authorization[Secrets.LEASE_RENEW],", "C30.5"),
    # ---- behaviour-preserving refactors
    M("benign-hoisted-compare", F, SWISS,
      "                    authorized = timing_safe_compare(\n"
      "                        auth_header,\n"
      "                        swissnum_auth_header(self._swissnum),\n"
      "                    )\n"
      "                    if not authorized:\n", None),
    M("benign-compare-args-swapped", F,
      "                        auth_header,\n                        swissnum_auth_header(self._swissnum),\n",
      "                        swissnum_auth_header(self._swissnum),\n                        auth_header,\n", None),
    M("benign-renamed-local", F,
      "                    authorization = request.requestHeaders.getRawHeaders(\n"
      "                        \"X-Tahoe-Authorization\", []\n                    )\n"
      "                    try:\n                        secrets = _extract_secrets(authorization, required_secrets)",
      "                    secret_headers = request.requestHeaders.getRawHeaders(\n"
      "                        \"X-Tahoe-Authorization\", []\n                    )\n"
      "                    try:\n                        secrets = _extract_secrets(secret_headers, required_secrets)", None),
    M("benign-eq-form", F,
      "    if result.keys() != required_secrets:", "    if not (result.keys() == required_secrets):", None),
    M("benign-hoisted-table", F,
      "            return self._uploads[storage_index].shares[share_number]\n",
      "            by_index = self._uploads[storage_index]\n            return by_index.shares[share_number]\n", None),
    M("benign-validate-keywords", F,
      "        self.validate_upload_secret(storage_index, share_number, upload_secret)\n",
      "        self.validate_upload_secret(\n            storage_index=storage_index, share_number=share_number, upload_secret=upload_secret\n        )\n",
      None),
    M("benign-secret-len-check", F,
      "            if value == b\"\":", "            if len(value) == 0:", None),
    M("benign-log-before-401", F, SWISS_RAISE,
      "                        ctx.log(message_type=\"allmydata:storage:http-server:bad-swissnum\")\n" + SWISS_RAISE, None),
    # ---- vanished anchors
    M("vanish-extract-secrets", F, "def _extract_secrets(", "def _extract_secretsX(", "ANALYSIS-ERROR"),
    M("vanish-route-wrapper", F, "        def route(\n", "        def route_(\n", "ANALYSIS-ERROR",
      edits=[(F, "        return route\n", "        return route_\n")]),
    # ---- C30.8 a rejection reaches the client (added after the mutation sweep: `raise` deleted in route's handler)
    M("http-error-swallowed-in-route", F,
      "                    ctx.finish()\n                    raise\n",
      "                    ctx.finish()\n", "C30.8"),
    M("http-error-answered-with-body-only", F,
      "                    ctx.finish()\n                    raise\n",
      "                    ctx.finish()\n                    return (e.body or \"\").encode(\"utf-8\")  # type: ignore[return-value]\n", "C30.8"),
    M("error-handler-not-installed", F,
      "    _add_error_handling(_app)\n", "", "C30.8"),
    M("error-handler-fixed-status", F,
      "        request.setResponseCode(failure.value.code)\n", "        request.setResponseCode(http.BAD_REQUEST)\n", "C30.8"),
    M("error-handler-for-other-exception", F,
      "    @app.handle_errors(_HTTPError)\n", "    @app.handle_errors(ClientSecretsException)\n", "C30.8"),
    M("bad-secrets-code-and-body-swapped", F,
      "                        raise _HTTPError(http.BAD_REQUEST, str(e))\n",
      "                        raise _HTTPError(str(e), http.BAD_REQUEST)  # type: ignore[arg-type]\n", "C30.8"),
    M("bad-secrets-answered-200", F,
      "                        raise _HTTPError(http.BAD_REQUEST, str(e))\n",
      "                        raise _HTTPError(http.OK, str(e))\n", "C30.8"),
    M("benign-reject-code-by-keyword", F,
      "                        raise _HTTPError(http.BAD_REQUEST, str(e))\n",
      "                        status = http.BAD_REQUEST\n                        raise _HTTPError(body=str(e), code=status)\n", None),
    M("benign-route-answers-itself", F,
      "                    ctx.finish()\n                    raise\n",
      "                    ctx.finish()\n                    request.setResponseCode(e.code)\n"
      "                    return (e.body or \"\").encode(\"utf-8\")  # type: ignore[return-value]\n", None),
    M("benign-reraise-named", F,
      "                    ctx.finish()\n                    raise\n",
      "                    ctx.finish()\n                    raise e\n", None),
    M("benign-error-handler-hoisted", F,
      "        request.setResponseCode(failure.value.code)\n",
      "        err = failure.value\n        request.setResponseCode(err.code)\n", None),
    # ---- C30.7 (write-enabler guard shared with C24; added after seeded change C30-B)
    M("enabler-checked-only-when-first-share", "src/allmydata/storage/server.py",
      "                msf = MutableShareFile(filename, self)\n                msf.check_write_enabler(write_enabler, si_s)\n                shares[sharenum] = msf\n",
      "                msf = MutableShareFile(filename, self)\n                if not shares:\n                    msf.check_write_enabler(write_enabler, si_s)\n                shares[sharenum] = msf\n", "C30.7"),
    M("enabler-compared-with-equals", "src/allmydata/storage/mutable.py",
      "        if not timing_safe_compare(write_enabler, real_write_enabler):", "        if write_enabler != real_write_enabler:", "C30.7"),
]

# ---- the registering method of UploadsInProgress found by role (renamed / batched / wrapped / parameters reordered):
# behaviour-preserving variants defined for C31, plus breaking counterparts for the clause C30.4 decides on them
try:
    from .C31 import MUTANTS as _C31_MUTANTS, ADD_OLD as _ADD_OLD, CALL_OLD as _CALL_OLD, CALL_BATCH as _CALL_BATCH, \
        BATCH_HEAD as _BATCH_HEAD
    _c31 = {m.id: m for m in _C31_MUTANTS}
    for _vid in ("benign-uploads-add-renamed", "benign-uploads-batched-add-merges",
                 "benign-uploads-batched-add-membership-and-empty-guard",
                 "benign-uploads-batched-wrapper-over-per-share", "benign-uploads-add-reordered-params"):
        _v = _c31.get(_vid)
        if _v is not None and _v.expect is None:
            MUTANTS.append(M("c31-" + _vid, _v.path, _v.old, _v.new, None, within=_v.within, edits=list(_v.edits)))
    _w = _c31.get("uploads-wrapper-registers-under-secret")
    if _w is not None:
        MUTANTS.append(M("c31-wrapper-files-under-storage-index", _w.path, _w.old, _w.new, "C30.4", edits=list(_w.edits)))
    _BATCH_SETDEFAULT = "        si_uploads = self._uploads.setdefault(storage_index, StorageIndexUploads())\n"
    MUTANTS += [
        M("batched-add-files-under-storage-index", F, _ADD_OLD,
          _BATCH_HEAD + _BATCH_SETDEFAULT +
          "        for share_number, bucket in buckets.items():\n"
          "            si_uploads.shares[share_number] = bucket\n"
          "            si_uploads.upload_secrets[share_number] = storage_index\n"
          "            self._bucketwriters[bucket] = (storage_index, share_number)\n", "C30.4",
          edits=[(F, _CALL_OLD, _CALL_BATCH)]),
        M("batched-add-call-passes-lease-secret", F, _ADD_OLD,
          _BATCH_HEAD + _BATCH_SETDEFAULT +
          "        for share_number, bucket in buckets.items():\n"
          "            si_uploads.shares[share_number] = bucket\n"
          "            si_uploads.upload_secrets[share_number] = upload_secret\n"
          "            self._bucketwriters[bucket] = (storage_index, share_number)\n", "C30.4",
          edits=[(F, _CALL_OLD, "        self._uploads.add_write_buckets(storage_index, "
                  "authorization[Secrets.LEASE_CANCEL], sharenum_to_bucket)\n")]),
        M("batched-add-secret-by-wrong-keyword", F, _ADD_OLD,
          _BATCH_HEAD + _BATCH_SETDEFAULT +
          "        for share_number, bucket in buckets.items():\n"
          "            si_uploads.shares[share_number] = bucket\n"
          "            si_uploads.upload_secrets[share_number] = upload_secret\n"
          "            self._bucketwriters[bucket] = (storage_index, share_number)\n", "C30.4",
          edits=[(F, _CALL_OLD, "        self._uploads.add_write_buckets(\n            buckets=sharenum_to_bucket, "
                  "upload_secret=storage_index, storage_index=upload_secret\n        )\n")]),
        M("add-params-reordered-at-definition-only", F,
          "        storage_index: bytes,\n        share_number: int,\n        upload_secret: bytes,\n        bucket: BucketWriter,\n    ):\n",
          "        storage_index: bytes,\n        upload_secret: bytes,\n        share_number: int,\n        bucket: BucketWriter,\n    ):\n",
          "C30.4"),
        M("renamed-add-returns-previous-writer", F, "    def add_write_bucket(\n", "    def track_writer(\n", "C30.4",
          edits=[(F, "            self._uploads.add_write_bucket(\n", "            self._uploads.track_writer(\n"),
                 (F, "        si_uploads.shares[share_number] = bucket\n",
                  "        previous = si_uploads.shares.get(share_number)\n        si_uploads.shares[share_number] = bucket\n"),
                 (F, "        self._bucketwriters[bucket] = (storage_index, share_number)\n",
                  "        self._bucketwriters[bucket] = (storage_index, share_number)\n        return previous\n")]),
        M("batched-add-secrets-bulk-filled", F, _ADD_OLD,
          _BATCH_HEAD + _BATCH_SETDEFAULT +
          "        si_uploads.upload_secrets.update({k: upload_secret for k in buckets})\n"
          "        for share_number, bucket in buckets.items():\n"
          "            si_uploads.shares[share_number] = bucket\n"
          "            self._bucketwriters[bucket] = (storage_index, share_number)\n", "ANALYSIS-ERROR",
          edits=[(F, _CALL_OLD, _CALL_BATCH)]),
        M("registration-moved-to-unrouted-helper", F, _CALL_OLD,
          "        self._register(storage_index, upload_secret, sharenum_to_bucket)\n", "ANALYSIS-ERROR",
          edits=[(F, "    @_authorized_route(\n        _app,\n        {Secrets.LEASE_RENEW, Secrets.LEASE_CANCEL, Secrets.UPLOAD},\n",
                  "    def _register(self, storage_index, upload_secret, sharenum_to_bucket):\n"
                  "        for share_number, bucket in sharenum_to_bucket.items():\n"
                  "            self._uploads.add_write_bucket(storage_index, share_number, upload_secret, bucket)\n\n"
                  "    @_authorized_route(\n        _app,\n        {Secrets.LEASE_RENEW, Secrets.LEASE_CANCEL, Secrets.UPLOAD},\n")]),
    ]
except ImportError:
    pass
