from .runner import M

S = "src/allmydata/storage/http_server.py"
C = "src/allmydata/storage/http_client.py"
A = "src/allmydata/storage_client.py"
I = "src/allmydata/storage/immutable.py"
MU = "src/allmydata/storage/mutable.py"
SV = "src/allmydata/storage/server.py"

# ---- C31.13: snippets for the registering method of UploadsInProgress and its call in allocate_buckets
ADD_OLD = (
    "    def add_write_bucket(\n        self,\n        storage_index: bytes,\n        share_number: int,\n"
    "        upload_secret: bytes,\n        bucket: BucketWriter,\n    ):\n"
    "        \"\"\"Add a new ``BucketWriter`` to be tracked.\"\"\"\n"
    "        si_uploads = self._uploads.setdefault(storage_index, StorageIndexUploads())\n"
    "        si_uploads.shares[share_number] = bucket\n"
    "        si_uploads.upload_secrets[share_number] = upload_secret\n"
    "        self._bucketwriters[bucket] = (storage_index, share_number)\n")
CALL_OLD = (
    "        for share_number, bucket in sharenum_to_bucket.items():\n            self._uploads.add_write_bucket(\n"
    "                storage_index, share_number, upload_secret, bucket\n            )\n")
CALL_BATCH = "        self._uploads.add_write_buckets(storage_index, upload_secret, sharenum_to_bucket)\n"
BATCH_HEAD = (
    "    def add_write_buckets(self, storage_index: bytes, upload_secret: bytes, buckets: dict[int, BucketWriter]):\n")
BATCH_LOOP = (
    "        for share_number, bucket in buckets.items():\n"
    "            si_uploads.shares[share_number] = bucket\n"
    "            si_uploads.upload_secrets[share_number] = upload_secret\n"
    "            self._bucketwriters[bucket] = (storage_index, share_number)\n")


# ---- C31.16 / C31.7 (iterator shape): write_share_data refactored to a chunk generator + consumer
GEN_ANCHOR = "# Callable that takes offset and length, returns the data at that range.\nReadData = Callable[[int, int], bytes]\n"


def _gen(loop="    offset = start\n    while offset < stop:\n", read="min(stop - offset, _CHUNK_SIZE)",
         tail="        offset += len(data)\n"):
    return (GEN_ANCHOR + "\n_CHUNK_SIZE = 65536\n\n\ndef _iter_body_chunks(content, start: int, stop: int):\n"
            "    \"\"\"Yield (offset, data) for the bytes of [start, stop) of an uploaded body, in 64KiB pieces.\"\"\"\n"
            + loop + "        data = content.read(" + read + ")\n"
            "        assert data, \"uploaded data length doesn't match range\"\n        yield offset, data\n" + tail)


LOOP_OLD = (
    "        offset = content_range.start or 0\n"
    "        # We don't support an unspecified stop for the range:\n        assert content_range.stop is not None\n"
    "        # Missing body makes no sense:\n        assert request.content is not None\n"
    "        remaining = content_range.stop - offset\n        finished = False\n\n"
    "        while remaining > 0:\n            data = request.content.read(min(remaining, 65536))\n"
    "            assert data, \"uploaded data length doesn't match range\"\n"
    "            try:\n                finished = bucket.write(offset, data)\n"
    "            except ConflictingWriteError:\n                request.setResponseCode(http.CONFLICT)\n"
    "                return b\"\"\n            remaining -= len(data)\n            offset += len(data)\n")
CHUNKS = "_iter_body_chunks(request.content, start, content_range.stop)"
COMP = "bucket.write(offset, data) for offset, data in " + CHUNKS


def _body(compute, start="content_range.start or 0"):
    """write_share_data's data section with the completion flag computed by `compute` (statements at 12 spaces)."""
    return ("        start = " + start + "\n        assert content_range.stop is not None\n"
            "        assert request.content is not None\n\n        try:\n" + compute +
            "        except ConflictingWriteError:\n            request.setResponseCode(http.CONFLICT)\n            return b\"\"\n")


def IT(mid, compute, expect, gen=None, start="content_range.start or 0"):
    return M(mid, S, GEN_ANCHOR, gen or _gen(), expect, edits=[(S, LOOP_OLD, _body(compute, start))])

MUTANTS = [
    # ---- C31.1 route table == request table
    M("client-abort-url-typo", C,
      "\"/storage/v1/immutable/{}/{}/abort\".format(", "\"/storage/v1/immutable/{}/{}/cancel\".format(", "C31.1"),
    M("server-abort-method-post", S,
      "/abort\",\n        methods=[\"PUT\"],", "/abort\",\n        methods=[\"POST\"],", "C31.1"),
    M("client-lease-cancel-secret-not-sent", C,
      "            lease_renew_secret=renew_secret,\n            lease_cancel_secret=cancel_secret,\n        )",
      "            lease_renew_secret=renew_secret,\n        )", "C31.1"),
    M("server-list-requires-lease-secret", S,
      "        set(),\n        \"/storage/v1/immutable/<storage_index:storage_index>/shares\",",
      "        {Secrets.LEASE_RENEW},\n        \"/storage/v1/immutable/<storage_index:storage_index>/shares\",", "C31.1"),
    M("client-si-not-encoded", C,
      "\"/storage/v1/mutable/{}/shares\".format(_encode_si(storage_index))",
      "\"/storage/v1/mutable/{}/shares\".format(storage_index)", "C31.1"),
    M("server-version-path-v2", S,
      "@_authorized_route(_app, set(), \"/storage/v1/version\", methods=[\"GET\"])",
      "@_authorized_route(_app, set(), \"/storage/v2/version\", methods=[\"GET\"])", "C31.1"),
    # ---- C31.2 message keys
    M("client-allocate-key-renamed", C,
      "message = {\"share-numbers\": share_numbers, \"allocated-size\": allocated_size}",
      "message = {\"share-numbers\": share_numbers, \"allocated_size\": allocated_size}", "C31.2"),
    M("server-allocate-response-key-renamed", S,
      "{\"already-have\": set(already_got), \"allocated\": set(sharenum_to_bucket)}",
      "{\"already_have\": set(already_got), \"allocated\": set(sharenum_to_bucket)}", "C31.2"),
    M("server-ignores-new-length", S,
      "                        v[\"new-length\"],\n", "                        None,\n", ["C31.2", "C31.6"]),
    M("client-new-length-not-renamed", C,
      "        d[\"new-length\"] = d.pop(\"new_length\")\n", "", ["C31.2", "C31.6"]),
    M("client-required-schema-start", C,
      "      required: [0* {begin: uint, end: uint}]", "      required: [0* {start: uint, end: uint}]", "C31.2"),
    M("server-required-key-start", S,
      "required.append({\"begin\": start, \"end\": end})", "required.append({\"start\": start, \"end\": end})", "C31.2"),
    M("server-rtw-result-key", S,
      "request, {\"success\": success, \"data\": read_data}", "request, {\"success\": success, \"reads\": read_data}", "C31.2"),
    M("server-corrupt-reason-key", S,
      "      reason: tstr .size (1..32765)", "      message: tstr .size (1..32765)", "C31.2"),
    # ---- C31.3 status codes and completion
    M("server-lease-answers-200", S,
      "        request.setResponseCode(http.NO_CONTENT)\n", "        request.setResponseCode(http.OK)\n", "C31.3"),
    M("client-abort-expects-204", C,
      "            upload_secret=upload_secret,\n        )\n\n        if response.code == http.OK:\n            return",
      "            upload_secret=upload_secret,\n        )\n\n        if response.code == http.NO_CONTENT:\n            return", "C31.3"),
    M("server-never-201", S,
      "        if finished:\n            bucket.close()\n            request.setResponseCode(http.CREATED)\n        else:\n"
      "            request.setResponseCode(http.OK)\n",
      "        if finished:\n            bucket.close()\n        request.setResponseCode(http.OK)\n", "C31.3"),
    M("server-201-without-close", S,
      "            bucket.close()\n            request.setResponseCode(http.CREATED)\n",
      "            request.setResponseCode(http.CREATED)\n", "C31.3"),
    M("server-finished-when-chunk-consumed", S,
      "        if finished:\n            bucket.close()", "        if remaining == 0:\n            bucket.close()", "C31.3"),
    M("server-finished-polarity", S,
      "        if finished:\n            bucket.close()", "        if not finished:\n            bucket.close()", "C31.3"),
    M("client-finished-flags-swapped", C,
      "            finished = False\n        elif response.code == http.CREATED:\n            # Upload is done!\n            finished = True",
      "            finished = True\n        elif response.code == http.CREATED:\n            # Upload is done!\n            finished = False",
      "C31.3"),
    M("adapter-close-released-by-any-write", A,
      "        if result.finished:\n            self.finished.callback(True)",
      "        if result is not None:\n            self.finished.callback(True)", "C31.3"),
    M("adapter-close-returns-at-once", A,
      "        # finished writing all the data.\n        return self.finished",
      "        # finished writing all the data.\n        return defer.succeed(None)", "C31.3"),
    # ---- C31.4 ranges
    M("range-end-not-clipped", S, "    end = min(end, share_length)\n", "", "C31.4"),
    M("range-empty-off-by-one", S, "    if offset >= end:", "    if offset > end:", "C31.4"),
    M("range-producer-one-more", S,
      "request, read_data_with_error_handling, d, offset, end - offset\n",
      "request, read_data_with_error_handling, d, offset, end - offset + 1\n", "C31.4"),
    M("range-content-range-inclusive", S,
      "ContentRange(\"bytes\", offset, end).to_header()", "ContentRange(\"bytes\", offset, end - 1).to_header()", "C31.4"),
    M("range-clip-after-header", S,
      "    end = min(end, share_length)\n    if offset >= end:",
      "    if offset >= end:", ["C31.4"],
      edits=[(S, "    d: Deferred[bytes] = Deferred()\n    request.registerProducer(",
              "    end = min(end, share_length)\n    d: Deferred[bytes] = Deferred()\n    request.registerProducer(")]),
    M("immutable-read-unclipped", S,
      "return read_range(request, bucket.read, bucket.get_length())",
      "return read_range(request, bucket.read, 2**64)", "C31.4"),
    M("mutable-read-other-share", S,
      "                    storage_index, [share_number], [(offset, length)]\n                )[share_number][0]",
      "                    storage_index, [share_number], [(offset, length)]\n                )[0][0]", "C31.4"),
    M("client-range-inclusive-end", C,
      "Range(\"bytes\", [(offset, offset + length)])", "Range(\"bytes\", [(offset, offset + length - 1)])", "C31.4"),
    M("client-no-204", C,
      "    if response.code == http.NO_CONTENT:\n        return b\"\"\n", "", ["C31.3", "C31.4"]),
    M("client-204-none", C,
      "    if response.code == http.NO_CONTENT:\n        return b\"\"\n",
      "    if response.code == http.NO_CONTENT:\n        return None  # type: ignore\n", "C31.4"),
    M("server-mutable-content-type", S,
      "        request.setHeader(\"content-type\", \"application/octet-stream\")\n\n        try:",
      "        request.setHeader(\"content-type\", \"application/binary\")\n\n        try:", "C31.4"),
    # ---- C31.5 headers
    M("client-secret-header-name", C,
      "                \"X-Tahoe-Authorization\",\n                b\"%s %s\"", "                \"X-Tahoe-Secret\",\n                b\"%s %s\"", "C31.5"),
    M("client-secret-format", C,
      "b\"%s %s\" % (secret.value.encode(\"ascii\"), b64encode(value).strip())",
      "b\"%s=%s\" % (secret.value.encode(\"ascii\"), b64encode(value).strip())", "C31.5"),
    M("client-secret-by-enum-name", C,
      "b\"%s %s\" % (secret.value.encode(\"ascii\"), b64encode(value).strip())",
      "b\"%s %s\" % (secret.name.encode(\"ascii\"), b64encode(value).strip())", "C31.5"),
    M("client-secret-table-crossed", C,
      "            (Secrets.LEASE_RENEW, lease_renew_secret),\n            (Secrets.LEASE_CANCEL, lease_cancel_secret),",
      "            (Secrets.LEASE_CANCEL, lease_renew_secret),\n            (Secrets.LEASE_RENEW, lease_cancel_secret),", "C31.5"),
    M("client-request-forwarding-crossed", C,
      "                lease_renew_secret,\n                lease_cancel_secret,\n                upload_secret,\n                write_enabler_secret,\n                headers,",
      "                lease_cancel_secret,\n                lease_renew_secret,\n                upload_secret,\n                write_enabler_secret,\n                headers,",
      "C31.5"),
    M("client-authorization-raw-swissnum", C,
      "            \"Authorization\",\n            swissnum_auth_header(self._swissnum),",
      "            \"Authorization\",\n            b64encode(self._swissnum),", "C31.5"),
    M("client-fresh-headers-to-treq", C,
      "            method, url, headers=headers, timeout=timeout, **kwargs\n",
      "            method, url, headers=Headers({\"Accept\": [CBOR_MIME_TYPE]}), timeout=timeout, **kwargs\n", "C31.5"),
    # ---- C31.6 adapter
    M("adapter-secrets-order", A,
      "        we_secret, lr_secret, lc_secret = secrets", "        lr_secret, lc_secret, we_secret = secrets", "C31.6"),
    M("adapter-lease-secrets-crossed", A,
      "                storage_index, renew_secret, cancel_secret\n            )\n        except ClientException as e:",
      "                storage_index, cancel_secret, renew_secret\n            )\n        except ClientException as e:", "C31.6"),
    M("server-eq-operator-last", S,
      "(d[\"offset\"], d[\"size\"], b\"eq\", d[\"specimen\"])", "(d[\"offset\"], d[\"size\"], d[\"specimen\"], b\"eq\")", "C31.6"),
    M("adapter-testv-unpacked-crossed", A,
      "                for (offset, size, specimen) in test_vector", "                for (offset, specimen, size) in test_vector", "C31.6"),
    M("client-test-write-crossed", C,
      "        d[\"test\"] = d.pop(\"test_vectors\")\n        d[\"write\"] = d.pop(\"write_vectors\")",
      "        d[\"test\"] = d.pop(\"write_vectors\")\n        d[\"write\"] = d.pop(\"test_vectors\")", "C31.6"),
    M("adapter-add-lease-404-raises", A,
      "            if e.code == http.NOT_FOUND:\n                # Silently do nothing, as is the case for the Foolscap client\n                return\n            raise",
      "            raise", "C31.6"),
    M("adapter-corrupt-404-raises", A,
      "            storage_index, shnum, str(reason, \"utf-8\", errors=\"backslashreplace\")\n        ).addErrback(_ignore_404)",
      "            storage_index, shnum, str(reason, \"utf-8\", errors=\"backslashreplace\")\n        )", "C31.6"),
    M("adapter-writer-other-upload-secret", A,
      "                     upload_secret=upload_secret\n                 ))", "                     upload_secret=urandom(20)\n                 ))", "C31.6"),
    M("adapter-401-not-translated", A,
      "            if e.code == http.UNAUTHORIZED:", "            if e.code == http.FORBIDDEN:", "C31.6"),
    # ---- behaviour-preserving refactors
    M("benign-url-fstring", C,
      "\"/storage/v1/mutable/{}/shares\".format(_encode_si(storage_index))",
      "f\"/storage/v1/mutable/{_encode_si(storage_index)}/shares\"", None),
    M("benign-created-before-close", S,
      "            bucket.close()\n            request.setResponseCode(http.CREATED)\n",
      "            request.setResponseCode(http.CREATED)\n            bucket.close()\n", None),
    M("benign-range-not-lt", S, "    if offset >= end:", "    if not offset < end:", None),
    M("benign-code-compare-flipped", C,
      "        if response.code == http.OK:\n            return cast(\n                Set[int],\n                await self._client.decode_cbor(response, _SCHEMAS[\"list_shares\"]),",
      "        if http.OK == response.code:\n            return cast(\n                Set[int],\n                await self._client.decode_cbor(response, _SCHEMAS[\"list_shares\"]),",
      None),
    M("benign-adapter-local-renamed", A,
      "        we_secret, lr_secret, lc_secret = secrets", "        enabler, lr_secret, lc_secret = secrets", None,
      edits=[(A, "                storage_index, we_secret, lr_secret, lc_secret, client_tw_vectors,",
              "                storage_index, enabler, lr_secret, lc_secret, client_tw_vectors,")]),
    M("benign-length-hoisted", S,
      "    d: Deferred[bytes] = Deferred()\n    request.registerProducer(\n        _ReadRangeProducer(\n"
      "            request, read_data_with_error_handling, d, offset, end - offset\n",
      "    d: Deferred[bytes] = Deferred()\n    to_send = end - offset\n    request.registerProducer(\n        _ReadRangeProducer(\n"
      "            request, read_data_with_error_handling, d, offset, to_send\n", None),
    M("benign-response-dict-hoisted", S,
      "        return await self._send_encoded(\n            request, {\"success\": success, \"data\": read_data}\n        )",
      "        answer = {\"success\": success, \"data\": read_data}\n        return await self._send_encoded(request, answer)", None),
    M("benign-finished-is-true", S,
      "        if finished:\n            bucket.close()", "        if finished is True:\n            bucket.close()", None),
    # ==== gap review (mutation sweep survivors) ====
    # ---- C31.7 write_share_data byte accounting
    M("write-offset-start-and-0", S, "        offset = content_range.start or 0\n", "        offset = content_range.start and 0\n", "C31.7"),
    M("write-offset-fallback-1", S, "        offset = content_range.start or 0\n", "        offset = content_range.start or 1\n", "C31.7"),
    M("write-loop-negated", S, "        while remaining > 0:\n", "        while not (remaining > 0):\n", "C31.7"),
    M("write-loop-le", S, "        while remaining > 0:\n", "        while remaining <= 0:\n", "C31.7"),
    M("write-loop-drops-last-byte", S, "        while remaining > 0:\n", "        while remaining > 1:\n", "C31.7"),
    M("write-single-block-only", S, "        while remaining > 0:\n", "        if remaining > 0:\n", "C31.7"),
    M("write-offset-not-advanced", S, "            remaining -= len(data)\n            offset += len(data)\n",
      "            remaining -= len(data)\n", "C31.7"),
    M("write-remaining-not-decremented", S, "            remaining -= len(data)\n            offset += len(data)\n",
      "            offset += len(data)\n", "C31.7"),
    M("write-args-swapped", S, "                finished = bucket.write(offset, data)", "                finished = bucket.write(data, offset)", "C31.7"),
    M("write-conflict-answers-200", S, "                request.setResponseCode(http.CONFLICT)\n                return b\"\"",
      "                return b\"\"", "C31.7"),
    M("write-bad-range-answers-200", S,
      "            request.setResponseCode(http.REQUESTED_RANGE_NOT_SATISFIABLE)\n            return b\"\"\n\n        bucket = self._uploads.get_write_bucket(",
      "            return b\"\"\n\n        bucket = self._uploads.get_write_bucket(", "C31.7"),
    M("benign-write-while-remaining", S, "        while remaining > 0:\n", "        while remaining != 0:\n", None),
    M("benign-write-steps-spelled-out", S, "            remaining -= len(data)\n            offset += len(data)\n",
      "            offset = offset + len(data)\n            remaining = remaining - len(data)\n", None),
    M("benign-write-ok-status-implicit", S, "        else:\n            request.setResponseCode(http.OK)\n\n        required = []",
      "\n        required = []", None),
    M("benign-write-stop-hoisted", S, "        remaining = content_range.stop - offset\n",
      "        stop = content_range.stop\n        remaining = stop - offset\n", None),
    M("benign-write-offset-ifexp", S, "        offset = content_range.start or 0\n",
      "        offset = content_range.start if content_range.start is not None else 0\n", None),
    M("write-offset-ifexp-wrong-default", S, "        offset = content_range.start or 0\n",
      "        offset = content_range.start if content_range.start is not None else 1\n", "C31.7"),
    M("benign-write-conflict-raised", S, "                request.setResponseCode(http.CONFLICT)\n                return b\"\"",
      "                raise _HTTPError(http.CONFLICT)", None),
    # ---- C31.8 client status handling / body
    M("client-read-error-swallowed", C, "        raise ClientException(response.code)\n\n\n@async_to_deferred\nasync def advise_corrupt_share(",
      "        pass\n\n\n@async_to_deferred\nasync def advise_corrupt_share(", "C31.8"),
    M("client-lease-error-swallowed", C,
      "        if response.code == http.NO_CONTENT:\n            return\n        else:\n            raise ClientException(response.code)",
      "        if response.code == http.NO_CONTENT:\n            return\n        else:\n            pass", "C31.8"),
    M("client-list-status-flipped", C,
      "        if response.code == http.OK:\n            return cast(\n                Set[int],\n                await self._client.decode_cbor(response, _SCHEMAS[\"list_shares\"]),",
      "        if response.code != http.OK:\n            return cast(\n                Set[int],\n                await self._client.decode_cbor(response, _SCHEMAS[\"list_shares\"]),",
      "C31.3"),
    M("client-rtw-status-negated", C,
      "        if response.code == http.OK:\n            result = cast(\n                MUTABLE_RTW,",
      "        if not (response.code == http.OK):\n            result = cast(\n                MUTABLE_RTW,", "C31.3"),
    M("benign-client-list-error-first", C,
      "        if response.code == http.OK:\n            return cast(\n                Set[int],\n                await self._client.decode_cbor(response, _SCHEMAS[\"list_shares\"]),\n            )\n        else:\n            raise ClientException(response.code)",
      "        if response.code != http.OK:\n            raise ClientException(response.code)\n        return cast(\n            Set[int],\n            await self._client.decode_cbor(response, _SCHEMAS[\"list_shares\"]),\n        )",
      None),
    M("client-201-finished-not-set", C, "            # Upload is done!\n            finished = True\n", "            # Upload is done!\n            pass\n",
      ["C31.8", "C31.3"]),
    M("client-200-finished-not-set", C, "            # Upload is still unfinished.\n            finished = False\n",
      "            # Upload is still unfinished.\n            pass\n", ["C31.8", "C31.3"]),
    M("client-read-no-rewind", C, "        body.seek(0)\n        return body.read()", "        return body.read()", "C31.8"),
    M("client-read-rewind-to-1", C, "        body.seek(0)\n        return body.read()", "        body.seek(1)\n        return body.read()", "C31.8"),
    M("client-read-returns-none", C, "        body.seek(0)\n        return body.read()", "        body.seek(0)\n        return None  # type: ignore", "C31.8"),
    M("client-rtw-result-crossed", C, "ReadTestWriteResult(success=result[\"success\"], reads=result[\"data\"])",
      "ReadTestWriteResult(success=result[\"data\"], reads=result[\"success\"])", "C31.8"),
    M("client-create-result-crossed", C,
      "            already_have=decoded_response[\"already-have\"],\n            allocated=decoded_response[\"allocated\"],",
      "            already_have=decoded_response[\"allocated\"],\n            allocated=decoded_response[\"already-have\"],", "C31.8"),
    M("client-message-not-serialised", C, "            kwargs[\"data\"] = await defer_to_thread(dumps, message_to_serialize)\n", "", "C31.8"),
    M("client-message-test-negated", C, "        if message_to_serialize is not None:\n            if \"data\" in kwargs:",
      "        if message_to_serialize is None:\n            if \"data\" in kwargs:", "C31.8"),
    M("benign-client-error-first", C,
      "        if response.code == http.NO_CONTENT:\n            return\n        else:\n            raise ClientException(response.code)",
      "        if response.code != http.NO_CONTENT:\n            raise ClientException(response.code)\n        return", None),
    M("benign-client-body-getvalue", C, "        body.seek(0)\n        return body.read()",
      "        body.seek(0, 0)\n        chunk = body.read()\n        return chunk", None),
    M("benign-client-message-hoisted", C, "            kwargs[\"data\"] = await defer_to_thread(dumps, message_to_serialize)\n",
      "            encoded = await defer_to_thread(dumps, message_to_serialize)\n            kwargs[\"data\"] = encoded\n", None),
    # ---- C31.9 server plumbing
    M("route-wrapper-drops-result", S, "            return f(app, request, secrets, *args, **kwargs)\n",
      "            f(app, request, secrets, *args, **kwargs)\n            return None\n", "C31.9"),
    M("auth-wrapper-drops-result", S, "                    ctx.add_success_fields(response_code=request.code)\n                    return result\n",
      "                    ctx.add_success_fields(response_code=request.code)\n                    return None\n", "C31.9"),
    M("auth-wrapper-swallows-http-error", S, "                    ctx.finish()\n                    raise\n", "                    ctx.finish()\n", "C31.9"),
    M("range-content-range-header-swapped", S,
      "        \"content-range\",\n        ContentRange(\"bytes\", offset, end).to_header(),\n",
      "        ContentRange(\"bytes\", offset, end).to_header(),\n        \"content-range\",\n", "C31.9"),
    M("range-producer-args-swapped", S, "            request, read_data_with_error_handling, d, offset, end - offset\n        ),\n        False,\n",
      "            request, read_data_with_error_handling, d, offset, end - offset\n        ),\n        True,\n", "C31.9"),
    M("range-producer-registered-swapped", S,
      "    request.registerProducer(\n        _ReadRangeProducer(\n            request, read_data_with_error_handling, d, offset, end - offset\n        ),\n        False,\n    )\n",
      "    request.registerProducer(\n        False,\n        _ReadRangeProducer(\n            request, read_data_with_error_handling, d, offset, end - offset\n        ),\n    )\n", "C31.9"),
    M("range-returns-none", S, "        False,\n    )\n    return d\n", "        False,\n    )\n    return None\n", "C31.9"),
    M("benign-range-producer-hoisted", S,
      "    request.registerProducer(\n        _ReadRangeProducer(\n            request, read_data_with_error_handling, d, offset, end - offset\n        ),\n        False,\n    )\n",
      "    producer = _ReadRangeProducer(\n        request, read_data_with_error_handling, d, offset, end - offset\n    )\n    request.registerProducer(producer, False)\n", None),
    M("benign-auth-wrapper-direct-return", S,
      "                    result = f(self, request, secrets, *args, **kwargs)\n", "                    outcome = f(self, request, secrets, *args, **kwargs)\n", None,
      edits=[(S, "                    ctx.add_success_fields(response_code=request.code)\n                    return result\n",
              "                    ctx.add_success_fields(response_code=request.code)\n                    return outcome\n")]),
    # ---- C31.10 handlers: backend operation and translated statuses
    M("server-lease-not-added", S,
      "        self._storage_server.add_lease(\n            storage_index,\n            authorization[Secrets.LEASE_RENEW],\n            authorization[Secrets.LEASE_CANCEL],\n        )\n",
      "", "C31.10"),
    M("server-lease-secrets-crossed", S,
      "        self._storage_server.add_lease(\n            storage_index,\n            authorization[Secrets.LEASE_RENEW],\n            authorization[Secrets.LEASE_CANCEL],\n        )\n",
      "        self._storage_server.add_lease(\n            storage_index,\n            authorization[Secrets.LEASE_CANCEL],\n            authorization[Secrets.LEASE_RENEW],\n        )\n",
      "C31.10"),
    M("server-lease-404-when-shares-exist", S, "        if not list(self._storage_server.get_shares(storage_index)):\n            raise _HTTPError(http.NOT_FOUND)",
      "        if list(self._storage_server.get_shares(storage_index)):\n            raise _HTTPError(http.NOT_FOUND)", "C31.10"),
    M("server-abort-not-aborted", S, "        bucket.abort()\n\n        return b\"\"", "        return b\"\"", "C31.10"),
    M("server-bad-enabler-not-401", S, "        except BadWriteEnablerError:\n            raise _HTTPError(http.UNAUTHORIZED)",
      "        except BadWriteEnablerError:\n            raise _HTTPError(http.FORBIDDEN)", "C31.10"),
    M("server-bad-enabler-swallowed", S, "        except BadWriteEnablerError:\n            raise _HTTPError(http.UNAUTHORIZED)",
      "        except BadWriteEnablerError:\n            success, read_data = False, {}", "C31.10"),
    M("server-corrupt-immutable-no-404", S,
      "            bucket = self._storage_server.get_buckets(storage_index)[share_number]\n        except KeyError:\n            raise _HTTPError(http.NOT_FOUND)\n\n        # The reason",
      "            bucket = self._storage_server.get_buckets(storage_index)[share_number]\n        except KeyError:\n            raise _HTTPError(http.GONE)\n\n        # The reason",
      "C31.10"),
    M("server-corrupt-mutable-404-polarity", S, "        if share_number not in {\n            shnum for (shnum, _) in self._storage_server.get_shares(storage_index)\n        }:",
      "        if share_number in {\n            shnum for (shnum, _) in self._storage_server.get_shares(storage_index)\n        }:", "C31.10"),
    M("benign-lease-secrets-hoisted", S,
      "        self._storage_server.add_lease(\n            storage_index,\n            authorization[Secrets.LEASE_RENEW],\n            authorization[Secrets.LEASE_CANCEL],\n        )\n",
      "        self._storage_server.add_lease(\n            storage_index,\n            renew_secret=authorization[Secrets.LEASE_RENEW],\n            cancel_secret=authorization[Secrets.LEASE_CANCEL],\n        )\n",
      None),
    M("benign-lease-secrets-locals", S,
      "        self._storage_server.add_lease(\n            storage_index,\n            authorization[Secrets.LEASE_RENEW],\n            authorization[Secrets.LEASE_CANCEL],\n        )\n",
      "        renew = authorization[Secrets.LEASE_RENEW]\n        cancel = authorization[Secrets.LEASE_CANCEL]\n        self._storage_server.add_lease(storage_index, renew, cancel)\n",
      None),
    M("benign-abort-bucket-renamed", S, "        bucket.abort()\n\n        return b\"\"", "        writer = bucket\n        writer.abort()\n\n        return b\"\"", None),
    M("benign-lease-no-shares-len", S, "        if not list(self._storage_server.get_shares(storage_index)):\n            raise _HTTPError(http.NOT_FOUND)",
      "        if len(list(self._storage_server.get_shares(storage_index))) == 0:\n            raise _HTTPError(http.NOT_FOUND)", None),
    # ---- C31.11 adapter results
    M("adapter-ignore-404-negated", A, "    if failure.check(HTTPClientException) and failure.value.code == http.NOT_FOUND:",
      "    if not (failure.check(HTTPClientException) and failure.value.code == http.NOT_FOUND):", "C31.11"),
    M("adapter-ignore-404-flipped", A, "    if failure.check(HTTPClientException) and failure.value.code == http.NOT_FOUND:",
      "    if failure.check(HTTPClientException) and failure.value.code != http.NOT_FOUND:", "C31.11"),
    M("adapter-add-lease-swallows-all", A,
      "                # Silently do nothing, as is the case for the Foolscap client\n                return\n            raise",
      "                # Silently do nothing, as is the case for the Foolscap client\n                return\n", "C31.11"),
    M("adapter-rtw-returns-none", A, "        return (client_result.success, client_result.reads)", "        return None", "C31.11"),
    M("adapter-rtw-result-swapped", A, "        return (client_result.success, client_result.reads)",
      "        return (client_result.reads, client_result.success)", "C31.11"),
    M("adapter-allocate-writers-for-already-have", A, "                 for share_num in result.allocated\n",
      "                 for share_num in result.already_have\n", "C31.11"),
    M("foolscap-writev-from-new-length", A, "                value[1],\n                value[2],\n            ) for (key, value) in tw_vectors.items()",
      "                value[2],\n                value[2],\n            ) for (key, value) in tw_vectors.items()", "C31.11"),
    M("benign-adapter-ignore-404-if-else-swapped", A,
      "    if failure.check(HTTPClientException) and failure.value.code == http.NOT_FOUND:\n        return None\n    else:\n        return failure",
      "    if not failure.check(HTTPClientException) or failure.value.code != http.NOT_FOUND:\n        return failure\n    return None", None),
    M("benign-adapter-rtw-result-hoisted", A, "        return (client_result.success, client_result.reads)",
      "        answer = (client_result.success, client_result.reads)\n        return answer", None),
    # ---- C31.12 share length of the HTTP read path == bound of the direct read
    M("sharefile-length-one-lease", I,
      "            self._length = filesize - 0xc - (num_leases * self.LEASE_SIZE)\n",
      "            self._length = filesize - 0xc - self.LEASE_SIZE\n", "C31.12"),
    M("sharefile-length-forgets-header", I,
      "            self._length = filesize - 0xc - (num_leases * self.LEASE_SIZE)\n",
      "            self._length = filesize - (num_leases * self.LEASE_SIZE)\n", "C31.12"),
    M("sharefile-get-length-is-lease-offset", I,
      "        return self._length\n", "        return self._lease_offset\n", "C31.12"),
    M("sharefile-direct-read-ignores-header", I,
      "min(length, self._lease_offset-seekpos)", "min(length, self._lease_offset-offset)", "C31.12"),
    M("bucketreader-length-of-file-not-data", I,
      "        return self._share_file.get_length()\n", "        return self._share_file._lease_offset\n", "C31.12"),
    M("mutable-length-is-file-size", MU,
      "        f = open(self.home, 'rb')\n        data_length = self._read_data_length(f)\n        f.close()\n        return data_length\n",
      "        return os.path.getsize(self.home)\n", "C31.12"),
    M("mutable-length-includes-header", MU,
      "        f.close()\n        return data_length\n", "        f.close()\n        return data_length + self.DATA_OFFSET\n", "C31.12"),
    M("mutable-length-of-share-zero", SV,
      "        path = os.path.join(self.sharedir, si_dir, str(share_number))\n        if not os.path.exists(path):\n            raise KeyError(",
      "        path = os.path.join(self.sharedir, si_dir, str(0))\n        if not os.path.exists(path):\n            raise KeyError(", "C31.12"),
    M("benign-sharefile-length-from-lease-offset", I,
      "            self._length = filesize - 0xc - (num_leases * self.LEASE_SIZE)\n",
      "            self._length = self._lease_offset - 0xc\n", None),
    M("benign-sharefile-get-length-computed", I,
      "        return self._length\n", "        return self._lease_offset - self._data_offset\n", None),
    M("benign-sharefile-clip-in-file-coordinates", I,
      "actuallength = max(0, min(length, self._lease_offset-seekpos))",
      "actuallength = max(0, min(seekpos + length, self._lease_offset) - seekpos)", None),
    M("benign-mutable-get-length-with", MU,
      "        f = open(self.home, 'rb')\n        data_length = self._read_data_length(f)\n        f.close()\n        return data_length\n",
      "        with open(self.home, 'rb') as fh:\n            return self._read_data_length(fh)\n", None),
    M("benign-bucketreader-rename-local", I,
      "        data = self._share_file.read_share_data(offset, length)\n        self.ss.add_latency(\"read\", time.time() - start)\n"
      "        self.ss.count(\"read\")\n        return data\n",
      "        result = self._share_file.read_share_data(offset, length)\n        self.ss.add_latency(\"read\", time.time() - start)\n"
      "        self.ss.count(\"read\")\n        return result\n", None),
    # ---- C31.13 uploads in progress stay reachable until their own writer is removed
    M("uploads-remove-pops-whole-index", S,
      "        uploads_index = self._uploads[storage_index]\n        uploads_index.shares.pop(share_number)\n"
      "        uploads_index.upload_secrets.pop(share_number)\n        if not uploads_index.shares:\n"
      "            self._uploads.pop(storage_index)\n",
      "        uploads_index = self._uploads.pop(storage_index, None)\n        if uploads_index is None:\n            return\n"
      "        uploads_index.shares.pop(share_number, None)\n        uploads_index.upload_secrets.pop(share_number, None)\n", "C31.13"),
    M("uploads-remove-unconditional", S,
      "        if not uploads_index.shares:\n            self._uploads.pop(storage_index)\n",
      "        self._uploads.pop(storage_index)\n", "C31.13"),
    M("uploads-remove-guard-polarity", S,
      "        if not uploads_index.shares:\n            self._uploads.pop(storage_index)\n",
      "        if uploads_index.shares:\n            self._uploads.pop(storage_index)\n", "C31.13"),
    M("uploads-remove-clears-shares", S,
      "        uploads_index.shares.pop(share_number)\n", "        uploads_index.shares.clear()\n", "C31.13"),
    M("uploads-remove-del-without-guard", S,
      "        if not uploads_index.shares:\n            self._uploads.pop(storage_index)\n",
      "        del self._uploads[storage_index]\n", "C31.13"),
    M("uploads-add-replaces-entry", S,
      "        si_uploads = self._uploads.setdefault(storage_index, StorageIndexUploads())\n",
      "        si_uploads = self._uploads[storage_index] = StorageIndexUploads()\n", "C31.13"),
    M("uploads-add-fresh-entry-then-store", S,
      "        si_uploads = self._uploads.setdefault(storage_index, StorageIndexUploads())\n",
      "        si_uploads = StorageIndexUploads()\n        self._uploads[storage_index] = si_uploads\n", "C31.13"),
    # the registering method is found by role (stores into <entry>.shares[..] / _bucketwriters[..]), not by name
    M("uploads-batched-add-replaces-entry", S, ADD_OLD,          # seeded C31-E: one call per request, fresh entry assigned
      BATCH_HEAD + "        si_uploads = StorageIndexUploads()\n" + BATCH_LOOP +
      "        if si_uploads.shares:\n            self._uploads[storage_index] = si_uploads\n", "C31.13",
      edits=[(S, CALL_OLD, CALL_BATCH)]),
    M("uploads-batched-add-resets-entry-first", S, ADD_OLD,
      BATCH_HEAD + "        self._uploads[storage_index] = StorageIndexUploads()\n"
      "        for share_number, bucket in buckets.items():\n"
      "            self._uploads[storage_index].shares[share_number] = bucket\n"
      "            self._uploads[storage_index].upload_secrets[share_number] = upload_secret\n"
      "            self._bucketwriters[bucket] = (storage_index, share_number)\n", "C31.13",
      edits=[(S, CALL_OLD, CALL_BATCH)]),
    M("uploads-batched-add-update-with-fresh-entry", S, ADD_OLD,
      BATCH_HEAD + "        si_uploads = StorageIndexUploads()\n" + BATCH_LOOP +
      "        self._uploads.update({storage_index: si_uploads})\n", "C31.13",
      edits=[(S, CALL_OLD, CALL_BATCH)]),
    M("uploads-add-setitem-fresh-entry", S,
      "        si_uploads = self._uploads.setdefault(storage_index, StorageIndexUploads())\n",
      "        si_uploads = StorageIndexUploads()\n        self._uploads.__setitem__(storage_index, si_uploads)\n", "C31.13"),
    M("uploads-batched-add-reverse-map-outside-loop", S, ADD_OLD,
      BATCH_HEAD + "        si_uploads = self._uploads.setdefault(storage_index, StorageIndexUploads())\n"
      "        for share_number, bucket in buckets.items():\n"
      "            si_uploads.shares[share_number] = bucket\n"
      "            si_uploads.upload_secrets[share_number] = upload_secret\n"
      "        self._bucketwriters[bucket] = (storage_index, share_number)\n", "C31.13",
      edits=[(S, CALL_OLD, CALL_BATCH)]),
    M("uploads-batched-add-stops-after-first", S, ADD_OLD,
      BATCH_HEAD + "        si_uploads = self._uploads.setdefault(storage_index, StorageIndexUploads())\n" + BATCH_LOOP +
      "            break\n", "C31.13",
      edits=[(S, CALL_OLD, CALL_BATCH)]),
    M("uploads-batched-add-skips-known-share-numbers", S, ADD_OLD,
      BATCH_HEAD + "        si_uploads = self._uploads.setdefault(storage_index, StorageIndexUploads())\n"
      "        for share_number, bucket in buckets.items():\n"
      "            if share_number in si_uploads.upload_secrets:\n                continue\n"
      "            si_uploads.shares[share_number] = bucket\n"
      "            si_uploads.upload_secrets[share_number] = upload_secret\n"
      "            self._bucketwriters[bucket] = (storage_index, share_number)\n", "C31.13",
      edits=[(S, CALL_OLD, CALL_BATCH)]),
    M("uploads-batched-call-skipped-when-some-exist", S, ADD_OLD,
      BATCH_HEAD + "        si_uploads = self._uploads.setdefault(storage_index, StorageIndexUploads())\n" + BATCH_LOOP, "C31.13",
      edits=[(S, CALL_OLD, "        if not already_got:\n    " + CALL_BATCH)]),
    M("uploads-batched-call-passes-other-index", S, ADD_OLD,
      BATCH_HEAD + "        si_uploads = self._uploads.setdefault(storage_index, StorageIndexUploads())\n" + BATCH_LOOP, "C31.13",
      edits=[(S, CALL_OLD, "        self._uploads.add_write_buckets(upload_secret, storage_index, sharenum_to_bucket)\n")]),
    M("uploads-add-no-reverse-mapping", S,
      "        si_uploads.upload_secrets[share_number] = upload_secret\n"
      "        self._bucketwriters[bucket] = (storage_index, share_number)\n",
      "        si_uploads.upload_secrets[share_number] = upload_secret\n", "C31.13"),
    M("uploads-add-reverse-mapping-swapped", S,
      "        self._bucketwriters[bucket] = (storage_index, share_number)\n",
      "        self._bucketwriters[bucket] = (share_number, storage_index)\n", "C31.13"),
    M("uploads-add-writer-only-for-new-index", S,
      "        si_uploads = self._uploads.setdefault(storage_index, StorageIndexUploads())\n"
      "        si_uploads.shares[share_number] = bucket\n",
      "        known = storage_index in self._uploads\n"
      "        si_uploads = self._uploads.setdefault(storage_index, StorageIndexUploads())\n"
      "        if not known:\n            si_uploads.shares[share_number] = bucket\n", "C31.13"),
    M("uploads-batched-add-bulk-update-undecided", S, ADD_OLD,
      BATCH_HEAD + "        si_uploads = self._uploads.setdefault(storage_index, StorageIndexUploads())\n"
      "        si_uploads.shares.update(buckets)\n"
      "        for share_number, bucket in buckets.items():\n"
      "            si_uploads.upload_secrets[share_number] = upload_secret\n"
      "            self._bucketwriters[bucket] = (storage_index, share_number)\n", "ANALYSIS-ERROR",
      edits=[(S, CALL_OLD, CALL_BATCH)]),
    M("benign-uploads-batched-add-merges", S, ADD_OLD,
      BATCH_HEAD + "        si_uploads = self._uploads.setdefault(storage_index, StorageIndexUploads())\n" + BATCH_LOOP, None,
      edits=[(S, CALL_OLD, CALL_BATCH)]),
    M("benign-uploads-batched-add-membership-and-empty-guard", S, ADD_OLD,
      BATCH_HEAD + "        if not buckets:\n            return\n"
      "        if storage_index not in self._uploads:\n            self._uploads[storage_index] = StorageIndexUploads()\n"
      "        for share_number, bucket in buckets.items():\n"
      "            self._uploads[storage_index].shares[share_number] = bucket\n"
      "            self._uploads[storage_index].upload_secrets[share_number] = upload_secret\n"
      "            self._bucketwriters[bucket] = (storage_index, share_number)\n", None,
      edits=[(S, CALL_OLD, "        self._uploads.add_write_buckets(\n            buckets=sharenum_to_bucket, storage_index=storage_index, "
              "upload_secret=upload_secret\n        )\n")]),
    M("benign-uploads-batched-wrapper-over-per-share", S,
      "    def get_write_bucket(\n        self, storage_index: bytes, share_number: int, upload_secret: bytes\n    ) -> BucketWriter:\n",
      "    def add_write_buckets(self, storage_index, upload_secret, buckets):\n"
      "        for share_number, bucket in buckets.items():\n"
      "            self.add_write_bucket(storage_index, share_number, upload_secret, bucket)\n\n"
      "    def get_write_bucket(\n        self, storage_index: bytes, share_number: int, upload_secret: bytes\n    ) -> BucketWriter:\n",
      None, edits=[(S, CALL_OLD, CALL_BATCH)]),
    M("benign-uploads-add-renamed", S, "    def add_write_bucket(\n", "    def track_writer(\n", None,
      edits=[(S, "            self._uploads.add_write_bucket(\n", "            self._uploads.track_writer(\n")]),
    M("benign-uploads-add-reordered-params", S,
      "        storage_index: bytes,\n        share_number: int,\n        upload_secret: bytes,\n        bucket: BucketWriter,\n    ):\n",
      "        storage_index: bytes,\n        upload_secret: bytes,\n        share_number: int,\n        bucket: BucketWriter,\n    ):\n", None,
      edits=[(S, "                storage_index, share_number, upload_secret, bucket\n            )\n",
              "                storage_index, upload_secret, share_number, bucket\n            )\n")]),
    M("uploads-wrapper-registers-under-secret", S,
      "    def get_write_bucket(\n        self, storage_index: bytes, share_number: int, upload_secret: bytes\n    ) -> BucketWriter:\n",
      "    def add_write_buckets(self, storage_index, upload_secret, buckets):\n"
      "        for share_number, bucket in buckets.items():\n"
      "            self.add_write_bucket(upload_secret, share_number, storage_index, bucket)\n\n"
      "    def get_write_bucket(\n        self, storage_index: bytes, share_number: int, upload_secret: bytes\n    ) -> BucketWriter:\n",
      "C31.13", edits=[(S, CALL_OLD, CALL_BATCH)]),
    M("uploads-allocate-registers-first-only", S,
      "        for share_number, bucket in sharenum_to_bucket.items():\n            self._uploads.add_write_bucket(\n"
      "                storage_index, share_number, upload_secret, bucket\n            )\n",
      "        if sharenum_to_bucket:\n            share_number, bucket = next(iter(sharenum_to_bucket.items()))\n"
      "            self._uploads.add_write_bucket(\n"
      "                storage_index, share_number, upload_secret, bucket\n            )\n", "C31.13"),
    M("uploads-get-ignores-share-number", S,
      "            return self._uploads[storage_index].shares[share_number]\n",
      "            return next(iter(self._uploads[storage_index].shares.values()))\n", "ANALYSIS-ERROR"),
    M("uploads-get-wrong-key", S,
      "            return self._uploads[storage_index].shares[share_number]\n",
      "            return self._uploads[storage_index].shares[0]\n", "C31.13"),
    M("benign-uploads-remove-del-len", S,
      "        uploads_index.shares.pop(share_number)\n        uploads_index.upload_secrets.pop(share_number)\n"
      "        if not uploads_index.shares:\n            self._uploads.pop(storage_index)\n",
      "        del uploads_index.shares[share_number]\n        del uploads_index.upload_secrets[share_number]\n"
      "        if len(uploads_index.shares) == 0:\n            del self._uploads[storage_index]\n", None),
    M("benign-uploads-remove-early-return", S,
      "        if not uploads_index.shares:\n            self._uploads.pop(storage_index)\n",
      "        if uploads_index.shares:\n            return\n        self._uploads.pop(storage_index)\n", None),
    M("benign-uploads-remove-guard-on-secrets", S,
      "        if not uploads_index.shares:\n            self._uploads.pop(storage_index)\n",
      "        if not uploads_index.upload_secrets:\n            self._uploads.pop(storage_index, None)\n", None),
    M("benign-uploads-remove-pair-variable", S,
      "            storage_index, share_number = self._bucketwriters.pop(bucket)\n        except KeyError:\n"
      "            # This is probably a BucketWriter created by Foolscap, so just\n            # ignore it.\n            return\n"
      "        uploads_index = self._uploads[storage_index]\n        uploads_index.shares.pop(share_number)\n"
      "        uploads_index.upload_secrets.pop(share_number)\n        if not uploads_index.shares:\n"
      "            self._uploads.pop(storage_index)\n",
      "            key = self._bucketwriters.pop(bucket)\n        except KeyError:\n            return\n"
      "        entry = self._uploads[key[0]]\n        entry.shares.pop(key[1])\n"
      "        entry.upload_secrets.pop(key[1])\n        if not entry.shares:\n"
      "            self._uploads.pop(key[0])\n", None),
    M("benign-uploads-add-explicit-membership", S,
      "        si_uploads = self._uploads.setdefault(storage_index, StorageIndexUploads())\n",
      "        if storage_index not in self._uploads:\n            self._uploads[storage_index] = StorageIndexUploads()\n"
      "        si_uploads = self._uploads[storage_index]\n", None),
    M("benign-uploads-add-get-or-new", S,
      "        si_uploads = self._uploads.setdefault(storage_index, StorageIndexUploads())\n",
      "        si_uploads = self._uploads.get(storage_index) or StorageIndexUploads()\n"
      "        self._uploads[storage_index] = si_uploads\n", None),
    # ---- C31.14 every successful path of a handler reaches the direct operation's StorageServer entry point with the secrets
    M("server-rtw-read-only-fast-path", S,                  # seeded C31-G: empty test-write-vectors served from slot_readv
      "        secrets = (\n            authorization[Secrets.WRITE_ENABLER],\n",
      "        read_vector = [(d[\"offset\"], d[\"size\"]) for d in rtw_request[\"read-vector\"]]\n"
      "        if not rtw_request[\"test-write-vectors\"]:\n"
      "            read_data = self._storage_server.slot_readv(storage_index, [], read_vector)\n"
      "            return await self._send_encoded(\n                request, {\"success\": True, \"data\": read_data}\n            )\n\n"
      "        secrets = (\n            authorization[Secrets.WRITE_ENABLER],\n", "C31.14"),
    M("server-rtw-no-writes-served-by-read-path", S,        # same effect, other shape: only requests that write go the checked way
      "        try:\n            success, read_data = self._storage_server.slot_testv_and_readv_and_writev(\n",
      "        writes = any(v[\"write\"] or v[\"new-length\"] is not None for v in rtw_request[\"test-write-vectors\"].values())\n"
      "        if not writes and not any(v[\"test\"] for v in rtw_request[\"test-write-vectors\"].values()):\n"
      "            shares = list(rtw_request[\"test-write-vectors\"])\n"
      "            return await self._send_encoded(request, {\"success\": True, \"data\": self._storage_server.slot_readv(\n"
      "                storage_index, shares, [(d[\"offset\"], d[\"size\"]) for d in rtw_request[\"read-vector\"]])})\n"
      "        try:\n            success, read_data = self._storage_server.slot_testv_and_readv_and_writev(\n", "C31.14"),
    M("server-rtw-bad-enabler-falls-back-to-read", S,
      "        except BadWriteEnablerError:\n            raise _HTTPError(http.UNAUTHORIZED)",
      "        except BadWriteEnablerError:\n            if rtw_request[\"test-write-vectors\"]:\n"
      "                raise _HTTPError(http.UNAUTHORIZED)\n"
      "            success, read_data = True, self._storage_server.slot_readv(\n"
      "                storage_index, [], [(d[\"offset\"], d[\"size\"]) for d in rtw_request[\"read-vector\"]])",
      ["C31.14", "C31.10"]),
    M("server-allocate-all-present-fast-path", S,            # sibling handler: existing shares answered without allocate_buckets
      "        already_got, sharenum_to_bucket = self._storage_server.allocate_buckets(\n",
      "        present = set(self._storage_server.get_buckets(storage_index))\n"
      "        if set(info[\"share-numbers\"]) <= present:\n"
      "            return await self._send_encoded(request, {\"already-have\": present, \"allocated\": set()})\n"
      "        already_got, sharenum_to_bucket = self._storage_server.allocate_buckets(\n", "C31.14"),
    M("server-rtw-enabler-taken-from-renew-secret", S,
      "        secrets = (\n            authorization[Secrets.WRITE_ENABLER],\n            authorization[Secrets.LEASE_RENEW],\n",
      "        secrets = (\n            authorization[Secrets.LEASE_RENEW],\n            authorization[Secrets.LEASE_RENEW],\n", "C31.14"),
    M("benign-server-rtw-read-vector-hoisted", S,
      "        secrets = (\n            authorization[Secrets.WRITE_ENABLER],\n",
      "        read_vector = [(d[\"offset\"], d[\"size\"]) for d in rtw_request[\"read-vector\"]]\n"
      "        secrets = (\n            authorization[Secrets.WRITE_ENABLER],\n", None,
      edits=[(S, "                [(d[\"offset\"], d[\"size\"]) for d in rtw_request[\"read-vector\"]],\n            )\n        except BadWriteEnablerError:",
              "                read_vector,\n            )\n        except BadWriteEnablerError:")]),
    M("benign-server-rtw-secrets-inline-keyword", S,
      "                [(d[\"offset\"], d[\"size\"]) for d in rtw_request[\"read-vector\"]],\n            )\n        except BadWriteEnablerError:",
      "                read_vector=[(d[\"offset\"], d[\"size\"]) for d in rtw_request[\"read-vector\"]],\n            )\n        except BadWriteEnablerError:",
      None,
      edits=[(S, "                storage_index,\n                secrets,\n                {\n                    k: (",
              "                storage_index,\n                secrets=(authorization[Secrets.WRITE_ENABLER], authorization[Secrets.LEASE_RENEW],\n"
              "                         authorization[Secrets.LEASE_CANCEL]),\n                test_and_write_vectors={\n                    k: (")]),
    M("benign-server-allocate-positional-secrets", S,
      "            storage_index,\n            renew_secret=authorization[Secrets.LEASE_RENEW],\n            cancel_secret=authorization[Secrets.LEASE_CANCEL],\n",
      "            storage_index,\n            authorization[Secrets.LEASE_RENEW],\n            authorization[Secrets.LEASE_CANCEL],\n", None),
    M("benign-server-rtw-empty-request-rejected", S,          # an added error answer is not a successful path
      "        secrets = (\n            authorization[Secrets.WRITE_ENABLER],\n",
      "        if len(rtw_request[\"read-vector\"]) > 2**20:\n            request.setResponseCode(http.REQUEST_ENTITY_TOO_LARGE)\n"
      "            return b\"\"\n"
      "        secrets = (\n            authorization[Secrets.WRITE_ENABLER],\n", None),
    M("server-rtw-backend-call-in-helper-undecided", S,        # moved into a helper method: not guessed
      "            success, read_data = self._storage_server.slot_testv_and_readv_and_writev(\n",
      "            success, read_data = self._rtw(\n", "ANALYSIS-ERROR",
      edits=[(S, "    @_authorized_route(\n        _app,\n        set(),\n"
              "        \"/storage/v1/mutable/<storage_index:storage_index>/<int(signed=False):share_number>\",\n"
              "        methods=[\"GET\"],\n    )\n    def read_mutable_chunk(",
              "    def _rtw(self, storage_index, secrets, twv, rv):\n"
              "        return self._storage_server.slot_testv_and_readv_and_writev(storage_index, secrets, twv, rv)\n\n"
              "    @_authorized_route(\n        _app,\n        set(),\n"
              "        \"/storage/v1/mutable/<storage_index:storage_index>/<int(signed=False):share_number>\",\n"
              "        methods=[\"GET\"],\n    )\n    def read_mutable_chunk(")]),
    M("vanish-foolscap-remote-rtw", SV, "    def remote_slot_testv_and_readv_and_writev(", "    def remote_slot_testv_and_readv_and_writev_(",
      "ANALYSIS-ERROR"),
    # ---- C31.15 the adapter sends its secrets on every path that returns
    M("adapter-rtw-read-only-fast-path", A,
      "        mutable_client = StorageClientMutables(self._http_client)\n        we_secret, lr_secret, lc_secret = secrets\n",
      "        mutable_client = StorageClientMutables(self._http_client)\n        if not tw_vectors:\n"
      "            reads = yield self.slot_readv(storage_index, [], r_vector)\n            return (True, reads)\n"
      "        we_secret, lr_secret, lc_secret = secrets\n", "C31.15"),
    M("adapter-allocate-nothing-requested-fast-path", A,
      "        upload_secret = urandom(20)\n        immutable_client = StorageClientImmutables(self._http_client)\n",
      "        if not sharenums:\n            return (set(), {})\n"
      "        upload_secret = urandom(20)\n        immutable_client = StorageClientImmutables(self._http_client)\n", "C31.15"),
    M("adapter-add-lease-only-when-shares-listed", A,
      "        client = StorageClientGeneral(self._http_client)\n        try:\n            await client.add_or_renew_lease(\n",
      "        client = StorageClientGeneral(self._http_client)\n"
      "        if not await StorageClientImmutables(self._http_client).list_shares(storage_index):\n            return\n"
      "        try:\n            await client.add_or_renew_lease(\n", "C31.15"),
    M("benign-adapter-add-lease-client-renamed", A,
      "        client = StorageClientGeneral(self._http_client)\n        try:\n            await client.add_or_renew_lease(\n",
      "        general = StorageClientGeneral(self._http_client)\n        try:\n            await general.add_or_renew_lease(\n", None),
    M("benign-adapter-allocate-create-awaited-at-once", A,
      "        result = immutable_client.create(\n            storage_index, sharenums, allocated_size, upload_secret, renew_secret,\n"
      "            cancel_secret\n        )\n        result = yield result\n",
      "        result = yield immutable_client.create(\n            storage_index, sharenums, allocated_size, upload_secret, renew_secret,\n"
      "            cancel_secret\n        )\n", None),
    M("vanish-remove-write-bucket", S, "    def remove_write_bucket(", "    def remove_write_bucket_(", "ANALYSIS-ERROR",
      edits=[(S, "            self._uploads.remove_write_bucket\n", "            self._uploads.remove_write_bucket_\n")]),
    M("vanish-sharefile-get-length", I, "    def get_length(self):\n        \"\"\"\n        Return the length of the data in the share, if we're reading.",
      "    def get_length_(self):\n        \"\"\"\n        Return the length of the data in the share, if we're reading.", "ANALYSIS-ERROR"),
    # ---- C31.16: every piece of the body reaches <bucket>.write; completion = last write / eager or of all
    IT("iter-any-over-generator-short-circuits", "            finished = any(" + COMP + ")\n", "C31.16"),
    IT("iter-all-over-list", "            finished = all([" + COMP + "])\n", "C31.16"),
    IT("iter-next-takes-first-write", "            finished = next(" + COMP + ")\n", "C31.16"),
    IT("iter-first-result-decides", "            results = [" + COMP + "]\n            finished = results[0]\n", "C31.16"),
    IT("iter-true-in-generator", "            finished = True in (" + COMP + ")\n", "C31.16"),
    IT("iter-for-loop-breaks-when-finished",
       "            finished = False\n            for offset, data in " + CHUNKS + ":\n"
       "                finished = bucket.write(offset, data)\n                if finished:\n                    break\n", "C31.16"),
    M("loop-write-short-circuited-by-flag", S, "                finished = bucket.write(offset, data)\n",
      "                finished = finished or bucket.write(offset, data)\n", "C31.16"),
    IT("benign-iter-any-over-list", "            finished = any([" + COMP + "])\n", None),
    IT("benign-iter-last-of-list",
       "            results = [" + COMP + "]\n            finished = results[-1] if results else False\n", None),
    IT("benign-iter-max-over-generator", "            finished = max((" + COMP + "), default=False)\n", None),
    IT("benign-iter-for-loop-keeps-last",
       "            finished = False\n            for offset, data in " + CHUNKS + ":\n"
       "                finished = bucket.write(offset, data)\n", None),
    IT("benign-iter-generator-counts-remaining", "            finished = any([" + COMP + "])\n", None,
       gen=_gen(loop="    offset = start\n    remaining = stop - offset\n    while remaining > 0:\n",
                read="min(remaining, _CHUNK_SIZE)", tail="        remaining -= len(data)\n        offset += len(data)\n")),
    M("benign-loop-write-or-flag", S, "                finished = bucket.write(offset, data)\n",
      "                finished = bucket.write(offset, data) or finished\n", None),
    IT("undecided-iter-filtered-chunks", "            finished = any([" + COMP + " if data])\n", "ANALYSIS-ERROR"),
    # ---- C31.7 on the iterator shape
    IT("iter-write-args-swapped", "            finished = any([bucket.write(data, offset) for offset, data in " + CHUNKS + "])\n", "C31.7"),
    IT("iter-starts-at-zero", "            finished = any([" + COMP + "])\n", "C31.7", start="0"),
    IT("iter-start-and-0", "            finished = any([" + COMP + "])\n", "C31.7", start="content_range.start and 0"),
    IT("iter-generator-offset-not-advanced", "            finished = any([" + COMP + "])\n", "C31.7",
       gen=_gen(tail="        offset += _CHUNK_SIZE\n")),
    IT("iter-generator-drops-last-byte", "            finished = any([" + COMP + "])\n", "C31.7",
       gen=_gen(loop="    offset = start\n    while offset < stop - 1:\n")),
    IT("iter-generator-single-piece", "            finished = any([" + COMP + "])\n", "C31.7",
       gen=_gen(loop="    offset = start\n    if offset < stop:\n")),
    IT("iter-generator-stops-after-first-piece", "            finished = any([" + COMP + "])\n", "C31.7",
       gen=_gen(tail="        offset += len(data)\n        if offset - start >= _CHUNK_SIZE:\n            return\n")),
    IT("iter-stop-is-start", "            finished = any([bucket.write(offset, data) for offset, data in "
       "_iter_body_chunks(request.content, start, content_range.start)])\n", "ANALYSIS-ERROR"),
    # ---- vanished anchors
    M("vanish-read-range", S, "def read_range(\n", "def read_range_(\n", "ANALYSIS-ERROR",
      edits=[(S, "return read_range(request, bucket.read, bucket.get_length())", "return read_range_(request, bucket.read, bucket.get_length())"),
             (S, "return read_range(request, read_data, share_length)", "return read_range_(request, read_data, share_length)")]),
    M("vanish-client-request", C, "    async def _request(\n", "    async def _request_(\n", "ANALYSIS-ERROR"),
]
