from .runner import M

SC = "src/allmydata/storage_client.py"
UP = "src/allmydata/immutable/upload.py"
PUB = "src/allmydata/mutable/publish.py"
GM = "src/allmydata/grid_manager.py"

FILTER = ("            # print(\"upload processing: {}\".format([srv.upload_permitted() for srv in connected_servers]))\n"
          "            connected_servers = [\n                srv\n                for srv in connected_servers\n"
          "                if srv.upload_permitted()\n            ]\n")
HTTP_PERMIT = ("        if self._grid_manager_verifier is None:\n            return True\n"
               "        return self._grid_manager_verifier()\n\n    # Special methods used by copy.copy()")
PUB_FILTER = ("                if not server.upload_permitted():\n                    Message.log(\n"
              "                        message_type=u\"mutable:upload:no-gm-certs\",\n"
              "                        server_id=serverid,\n                    )\n                    continue\n")

# the factory loop that keeps verified certificates, and the body of the returned predicate
GM_KEEP = ("            if cert is not None:\n                valid_certs.append(cert)\n")
GM_EXPIRES = "            expires = datetime.fromisoformat(cert[\"expires\"])\n"
GM_PC = "            pc = cert['public_key'].encode('ascii')\n"
GM_LOOP = ("        for cert in valid_certs:\n" + GM_EXPIRES + GM_PC +
           "            assert type(pc) == type(public_key), \"{} isn't {}\".format(type(pc), type(public_key))\n"
           "            if pc == public_key:\n                if expires > now:\n"
           "                    # not-expired\n                    return True\n        return False\n")
GM_NOKEYS = "    if not keys:\n        return lambda: True\n"

# _parse_announcement: the seed branches
SEED_ANN = ("    if \"permutation-seed-base32\" in ann:\n        seed = ann[\"permutation-seed-base32\"]\n"
            "        if isinstance(seed, str):\n            seed = seed.encode(\"utf-8\")\n        ps = base32.a2b(seed)\n")
SEED_KEY = ("    elif re.search(br'^v0-[0-9a-zA-Z]{52}$', server_id):\n        ps = base32.a2b(server_id[3:])\n")
SEED_ELSE_HEAD = "    else:\n        log.msg(\"unable to parse serverid '%(server_id)s as pubkey, \"\n"
SEED_HASH = "        ps = hashlib.sha256(server_id).digest()\n"
FROM_ANN = ("        (nickname, permutation_seed, tubid, short_description, long_description) = "
            "_parse_announcement(server_id, furl.encode(\"utf-8\"), ann)\n")
HTTP_UNPACK = "            self._nickname,\n            self._permutation_seed,\n            self._tubid,\n"

MUTANTS = [
    # ---- C32.1 ordering key
    M("preferred-sorted-last", SC,
      "            is_unpreferred = server not in preferred_servers", "            is_unpreferred = server in preferred_servers", "C32.1"),
    M("hash-args-swapped", SC,
      "                    permute_server_hash(peer_selection_index, seed))", "                    permute_server_hash(seed, peer_selection_index))", "C32.1"),
    M("sorted-reversed", SC,
      "        return sorted(connected_servers, key=_permuted)", "        return sorted(connected_servers, key=_permuted, reverse=True)", "C32.1"),
    M("key-ignores-preferred", SC,
      "            return (is_unpreferred,\n                    permute_server_hash(peer_selection_index, seed))",
      "            return permute_server_hash(peer_selection_index, seed)", "C32.1"),
    M("key-uses-server-id", SC,
      "            seed = server.get_permutation_seed()", "            seed = server.get_serverid()", "C32.1"),
    M("preferred-by-nickname", SC,
      "if s.get_longname() in self.preferred_peers)", "if s.get_nickname() in self.preferred_peers)", "C32.1"),
    M("unsorted-list", SC,
      "        return sorted(connected_servers, key=_permuted)", "        return list(connected_servers)", "C32.1"),
    # ---- C32.2 for_upload filter
    M("filter-dropped", SC, FILTER, "            connected_servers = list(connected_servers)\n", "C32.2"),
    M("filter-inverted", SC, "                if srv.upload_permitted()\n", "                if not srv.upload_permitted()\n", "C32.2"),
    M("filter-on-read-path", SC, "        if for_upload:\n", "        if not for_upload:\n", "C32.2"),
    M("filter-result-unused", SC, "            connected_servers = [\n                srv\n", "            permitted = [\n                srv\n", "C32.2"),
    M("filter-by-connected", SC, "                if srv.upload_permitted()\n", "                if srv.is_connected()\n", "C32.2"),
    # ---- C32.3 call-site sweep
    M("uploader-drops-flag", UP,
      "storage_broker.get_servers_for_psi(storage_index, for_upload=True)", "storage_broker.get_servers_for_psi(storage_index)", "C32.3"),
    M("uploader-flag-false", UP,
      "storage_broker.get_servers_for_psi(storage_index, for_upload=True)", "storage_broker.get_servers_for_psi(storage_index, for_upload=False)", "C32.3"),
    M("uploader-falls-back-to-known-servers", UP, "            all_servers[:(2 * total_shares)],\n",
      "            (all_servers + [s for s in storage_broker.get_known_servers() if s not in all_servers])[:(2 * total_shares)],\n",
      "C32.3", note="for_upload=True is still passed, but unfiltered servers are appended to the candidates"),
    M("uploader-trackers-from-connected", UP, "            all_servers[:(2 * total_shares)],\n",
      "            sorted(storage_broker.get_connected_servers(), key=lambda s: s.get_serverid())[:(2 * total_shares)],\n",
      "C32.3", note="the filtered list is only used for the emptiness test"),
    M("publisher-second-reader", PUB, "    def _record_verinfo(self):\n",
      "    def _spare_server(self):\n        return self.full_serverlist[0]\n\n    def _record_verinfo(self):\n", "C32.3"),
    # ---- C32.4 mutable publisher
    M("publisher-filter-deleted", PUB, PUB_FILTER, "", "C32.4"),
    M("publisher-filter-log-only", PUB,
      "                        message_type=u\"mutable:upload:no-gm-certs\",\n                        server_id=serverid,\n                    )\n                    continue\n",
      "                        message_type=u\"mutable:upload:no-gm-certs\",\n                        server_id=serverid,\n                    )\n", "C32.4"),
    M("publisher-filter-inverted", PUB,
      "                if not server.upload_permitted():", "                if server.upload_permitted():", "C32.4"),
    M("publisher-extra-candidates", PUB,
      "        serverlist.sort()\n", "        serverlist.extend((0, 0, s.get_serverid(), s) for s in self.bad_servers)\n        serverlist.sort()\n", "C32.4"),
    # ---- C32.5 implementations and wiring
    M("permit-forgot-call", SC, HTTP_PERMIT,
      "        if self._grid_manager_verifier is None:\n            return True\n        return self._grid_manager_verifier\n\n    # Special methods used by copy.copy()", "C32.5"),
    M("permit-test-flipped", SC, HTTP_PERMIT,
      "        if self._grid_manager_verifier is not None:\n            return True\n        return self._grid_manager_verifier()\n\n    # Special methods used by copy.copy()", "C32.5"),
    M("permit-always-true", SC, HTTP_PERMIT,
      "        return True\n\n    # Special methods used by copy.copy()", "C32.5"),
    M("http-server-without-verifier", SC,
      "                server[\"ann\"],\n                grid_manager_verifier=gm_verifier,\n", "                server[\"ann\"],\n", "C32.5"),
    M("foolscap-server-without-verifier", SC,
      "            self.storage_client_config,\n            gm_verifier,\n        )", "            self.storage_client_config,\n        )", "C32.5"),
    M("verifier-without-keys", SC,
      "            self.storage_client_config.grid_manager_keys,\n            [SignedCertificate", "            [],\n            [SignedCertificate", "C32.5"),
    # ---- C32.6 the verdict is per certificate (closure capture / loop-carried values)
    M("expiry-parsed-in-factory-loop", GM, GM_KEEP,
      "            if cert is not None:\n                expires = datetime.fromisoformat(cert[\"expires\"])\n"
      "                valid_certs.append(cert)\n", "C32.6",
      edits=[(GM, "        for cert in valid_certs:\n" + GM_EXPIRES, "        for cert in valid_certs:\n")],
      note="seeded C32-A: validate() compares the expiry the factory loop parsed last"),
    M("expiry-reads-captured-cert", GM, GM_LOOP,
      "        for c in valid_certs:\n            expires = datetime.fromisoformat(cert[\"expires\"])\n"
      "            pc = c['public_key'].encode('ascii')\n"
      "            if pc == public_key:\n                if expires > now:\n                    return True\n        return False\n",
      "C32.6", note="half-finished rename: `cert` inside the predicate is now the factory's loop variable (late binding)"),
    M("expiry-newest-of-all", GM, "        for cert in valid_certs:\n" + GM_EXPIRES,
      "        newest = max([datetime.fromisoformat(c[\"expires\"]) for c in valid_certs], default=now)\n"
      "        for cert in valid_certs:\n            expires = newest\n", "C32.6",
      note="judged by the longest-lived certificate shown, whoever it was issued to"),
    M("expiry-of-previous-certificate", GM, GM_LOOP,
      "        expires = now\n        for cert in valid_certs:\n" + GM_PC +
      "            if pc == public_key:\n                if expires > now:\n                    return True\n"
      "            expires = datetime.fromisoformat(cert[\"expires\"])\n        return False\n", "C32.6",
      note="the expiry is parsed after the test: each certificate is judged by its predecessor's date"),
    M("key-parsed-in-factory-loop", GM, GM_KEEP,
      "            if cert is not None:\n                pc = cert['public_key'].encode('ascii')\n"
      "                valid_certs.append(cert)\n", "C32.6",
      edits=[(GM, GM_EXPIRES + GM_PC, GM_EXPIRES)],
      note="sibling slip: the certificate's key is the one the factory loop decoded last"),
    M("expiry-hoisted-after-factory-loop", GM, "    def validate():\n",
      "    expires = datetime.fromisoformat(valid_certs[-1][\"expires\"]) if valid_certs else None\n\n    def validate():\n", "C32.6",
      edits=[(GM, "        for cert in valid_certs:\n" + GM_EXPIRES, "        for cert in valid_certs:\n")],
      note="same effect without a loop-carried variable: one expiry computed once by the factory"),
    # ---- C32.7 which predicate the factory hands out
    M("gm-no-keys-test-negated", GM, GM_NOKEYS, "    if keys:\n        return lambda: True\n", "C32.7",
      note="sweep survivor (test-negate L451): with keys configured every server is permitted"),
    M("gm-open-when-no-certs", GM, GM_NOKEYS, "    if not keys or not certs:\n        return lambda: True\n", "C32.7",
      note="`nothing to verify` shortcut: a server announcing no certificate at all is permitted although keys are configured"),
    M("gm-no-verifier-when-nothing-kept", GM, "        return False\n\n    return validate\n",
      "        return False\n\n    if valid_certs:\n        return validate\n", "C32.7",
      note="falls off the end when no certificate verified: None is read by upload_permitted() as `no verifier`"),
    M("gm-keys-forgotten-without-certs", GM, "    valid_certs = []\n", "    valid_certs = []\n    keys = keys if certs else []\n", "C32.7",
      note="the emptiness test is no longer about the configured keys"),
    # ---- benign
    M("benign-gm-no-keys-returns-none", GM, GM_NOKEYS, "    if not keys:\n        return None\n", None,
      note="sweep survivor (return-none L452): both upload_permitted() implementations answer True for a None verifier"),
    M("benign-gm-no-keys-hoisted", GM, GM_NOKEYS,
      "    unconfigured = len(keys) == 0\n    if unconfigured:\n        return lambda: True\n", None),
    M("benign-gm-no-keys-else-branch", GM, GM_NOKEYS,
      "    keys = list(keys)\n    if keys:\n        pass\n    else:\n        return lambda: True\n", None),
    M("benign-gm-expiry-prechecked", GM, GM_KEEP,
      "            if cert is not None:\n                checked = datetime.fromisoformat(cert[\"expires\"])\n"
      "                valid_certs.append(cert)\n", None,
      note="what the seeded change claimed to do, done right: parse early to notice bad dates, still parse per certificate"),
    M("benign-gm-loop-rewritten", GM, GM_LOOP,
      "        for i, c in enumerate(valid_certs):\n            e = c[\"expires\"]\n            until = datetime.fromisoformat(e)\n"
      "            if not c['public_key'].encode('ascii') == public_key:\n                continue\n"
      "            if now < until:\n                return True\n        return False\n", None),
    M("benign-gm-boolean-temporary", GM,
      "            if pc == public_key:\n                if expires > now:\n                    # not-expired\n                    return True\n",
      "            mine = pc == public_key\n            current = not (expires <= now)\n"
      "            ok = mine and current\n            if ok:\n                return True\n", None),
    M("benign-key-inlined", SC,
      "            seed = server.get_permutation_seed()\n            is_unpreferred = server not in preferred_servers\n            return (is_unpreferred,\n                    permute_server_hash(peer_selection_index, seed))",
      "            return (not (server in preferred_servers),\n                    permute_server_hash(peer_selection_index, server.get_permutation_seed()))", None),
    M("benign-key-lambda", SC,
      "        return sorted(connected_servers, key=_permuted)",
      "        psi = peer_selection_index\n        return sorted(connected_servers, key=lambda srv: (srv not in preferred_servers, permute_server_hash(psi, srv.get_permutation_seed())))", None),
    M("benign-filter-else-branch", SC,
      "        if for_upload:\n" + FILTER,
      "        if not for_upload:\n            pass\n        else:\n            connected_servers = [s for s in connected_servers if s.upload_permitted()]\n", None),
    M("benign-filter-new-local", SC,
      "        if for_upload:\n" + FILTER,
      "        candidates = connected_servers\n        if for_upload:\n            candidates = list(s for s in connected_servers if s.upload_permitted())\n", None,
      edits=[(SC, "        return sorted(connected_servers, key=_permuted)", "        return sorted(candidates, key=_permuted)")]),
    M("benign-publisher-hoisted", PUB,
      "                if not server.upload_permitted():", "                permitted = server.upload_permitted()\n                if not permitted:", None),
    M("benign-publisher-positive-form", PUB, PUB_FILTER + "\n                entry = (len(old_assignments.get(server, [])), i, serverid, server)\n                serverlist.append(entry)\n",
      "                if server.upload_permitted():\n                    serverlist.append((len(old_assignments.get(server, [])), i, serverid, server))\n", None),
    M("benign-permit-not-form", SC, HTTP_PERMIT,
      "        verifier = self._grid_manager_verifier\n        if not verifier:\n            return True\n        return verifier()\n\n    # Special methods used by copy.copy()", None),
    M("benign-uploader-candidates-hoisted", UP, "            all_servers[:(2 * total_shares)],\n",
      "            candidates,\n", None,
      edits=[(UP, "        def _create_server_tracker(server, renew, cancel):\n",
              "        wanted = min(len(all_servers), 2 * total_shares)\n        candidates = list(all_servers)[:wanted]\n\n"
              "        def _create_server_tracker(server, renew, cancel):\n")]),
    M("benign-uploader-positional", UP,
      "storage_broker.get_servers_for_psi(storage_index, for_upload=True)", "storage_broker.get_servers_for_psi(storage_index, True)", None),
    # ---- C32.8 the announced seed has precedence
    M("seed-key-branch-before-announced", SC, SEED_ANN + SEED_KEY,
      "    if re.search(br'^v0-[0-9a-zA-Z]{52}$', server_id):\n        ps = base32.a2b(server_id[3:])\n"
      "    elif \"permutation-seed-base32\" in ann:\n        seed = ann[\"permutation-seed-base32\"]\n"
      "        if isinstance(seed, str):\n            seed = seed.encode(\"utf-8\")\n        ps = base32.a2b(seed)\n", "C32.8",
      note="seeded C32-E"),
    M("seed-overridden-by-key-afterwards", SC, "    permutation_seed = ps\n",
      "    if server_id.startswith(b\"v0-\") and len(server_id) == 55:\n        ps = base32.a2b(server_id[3:])\n    permutation_seed = ps\n",
      "C32.8"),
    M("seed-announced-only-for-non-key-ids", SC, "    if \"permutation-seed-base32\" in ann:\n        seed = ann[",
      "    if \"permutation-seed-base32\" in ann and not server_id.startswith(b\"v0-\"):\n        seed = ann[", "C32.8"),
    M("seed-tests-the-wrong-announcement-key", SC, "    if \"permutation-seed-base32\" in ann:\n        seed = ann[",
      "    if \"permutation-seed\" in ann:\n        seed = ann[", "C32.8"),
    M("seed-announced-truncated", SC, "        ps = base32.a2b(seed)\n", "        ps = base32.a2b(seed)[:20]\n", "C32.8"),
    M("seed-returned-is-the-tubid", SC, "    permutation_seed = ps\n", "    permutation_seed = tubid\n", "C32.8"),
    M("benign-seed-looked-up-with-get", SC, SEED_ANN + SEED_KEY,
      "    seed = ann.get(\"permutation-seed-base32\")\n    if seed is not None:\n"
      "        if isinstance(seed, str):\n            seed = seed.encode(\"utf-8\")\n        ps = base32.a2b(seed)\n" + SEED_KEY, None),
    M("benign-seed-key-branch-first-when-absent", SC, SEED_ANN + SEED_KEY,
      "    if \"permutation-seed-base32\" not in ann and re.search(br'^v0-[0-9a-zA-Z]{52}$', server_id):\n"
      "        ps = base32.a2b(server_id[3:])\n"
      "    elif \"permutation-seed-base32\" in ann:\n        seed = ann[\"permutation-seed-base32\"]\n"
      "        if isinstance(seed, str):\n            seed = seed.encode(\"utf-8\")\n        ps = base32.a2b(seed)\n", None,
      note="the same reordering as C32-E, with the precedence kept"),
    M("benign-seed-keyerror-form", SC, SEED_ANN + SEED_KEY + SEED_ELSE_HEAD,
      "    try:\n        seed = ann[\"permutation-seed-base32\"]\n    except KeyError:\n        seed = None\n"
      "    if seed is not None:\n        if isinstance(seed, str):\n            seed = seed.encode(\"utf-8\")\n"
      "        announced = base32.a2b(seed)\n        ps = announced\n" + SEED_KEY + SEED_ELSE_HEAD, None),
    # ---- C32.9 the seed element reaches get_permutation_seed()
    M("http-server-unpacks-tubid-as-seed", SC, HTTP_UNPACK,
      "            self._nickname,\n            self._tubid,\n            self._permutation_seed,\n", "C32.9"),
    M("foolscap-description-gets-tubid-as-seed", SC, "            permutation_seed=permutation_seed,\n",
      "            permutation_seed=tubid,\n", "C32.9"),
    M("native-server-answers-tubid-as-seed", SC,
      "    def get_permutation_seed(self):\n        return self._storage.permutation_seed\n",
      "    def get_permutation_seed(self):\n        return self._storage.tubid\n", "C32.9"),
    M("http-server-seed-rebound-from-id", SC,
      "        self._nurls = [\n            DecodedURL.from_text(u)\n",
      "        if server_id.startswith(b\"v0-\"):\n            self._permutation_seed = base32.a2b(server_id[3:])\n"
      "        self._nurls = [\n            DecodedURL.from_text(u)\n", "C32.9"),
    M("benign-foolscap-description-indexes-the-result", SC, FROM_ANN,
      "        parsed = _parse_announcement(server_id, furl.encode(\"utf-8\"), ann)\n"
      "        nickname, tubid, short_description, long_description = parsed[0], parsed[2], parsed[3], parsed[4]\n"
      "        permutation_seed = parsed[1]\n", None),
    # ---- C32.10 the fallback seeds are the frozen ones
    M("seed-key-tail-off-by-one", SC, "        ps = base32.a2b(server_id[3:])\n", "        ps = base32.a2b(server_id[2:])\n", "C32.10"),
    M("seed-key-branch-on-prefix-only", SC, "    elif re.search(br'^v0-[0-9a-zA-Z]{52}$', server_id):\n",
      "    elif server_id.startswith(b\"v0-\"):\n", "C32.10"),
    M("seed-hash-is-sha1", SC, SEED_HASH, "        ps = hashlib.sha1(server_id).digest()\n", "C32.10"),
    M("seed-hash-of-the-tubid", SC, SEED_HASH, "        ps = hashlib.sha256(tubid).digest()\n", "C32.10"),
    M("benign-seed-key-tail-hoisted", SC, SEED_KEY,
      "    elif V0_SERVER_ID.search(server_id) is not None:\n        pubkey_b32 = server_id[3:]\n        ps = base32.a2b(pubkey_b32)\n", None,
      edits=[(SC, "def _parse_announcement(server_id: bytes,", "V0_SERVER_ID = re.compile(br'^v0-[0-9a-zA-Z]{52}$')\n\n\ndef _parse_announcement(server_id: bytes,")]),
    # ---- vanished anchors
    M("vanish-parse-announcement", SC, "def _parse_announcement(server_id: bytes,", "def _parse_announcement2(server_id: bytes,", "ANALYSIS-ERROR"),
    M("vanish-psi", SC, "    def get_servers_for_psi(self, peer_selection_index, for_upload=False):",
      "    def get_servers_for_psi2(self, peer_selection_index, for_upload=False):", "ANALYSIS-ERROR"),
    M("vanish-gm-predicate-loop", GM, "        for cert in valid_certs:\n" + GM_EXPIRES,
      "        for cert in list(reversed(valid_certs)):\n" + GM_EXPIRES, "ANALYSIS-ERROR",
      note="kept-list loop in a shape the rule does not follow: must not pass silently"),
    M("vanish-gm-predicate-through-local", GM, GM_NOKEYS + "\n    if bad_cert is None:\n",
      "    verifier = lambda: True\n    if bad_cert is None:\n", "ANALYSIS-ERROR",
      edits=[(GM, "        return False\n\n    return validate\n",
              "        return False\n\n    if valid_certs:\n        verifier = validate\n    return verifier\n")],
      note="open predicate as the default, replaced only when some certificate verified (property-breaking): the shared "
           "C33 helper no longer finds `return <nested predicate>`, so C32.6/C32.7 stop with exit 2 - must not pass silently"),
    M("vanish-make-storage-server", SC, "    def _make_storage_server(self, server_id, server):",
      "    def _make_storage_server2(self, server_id, server):", "ANALYSIS-ERROR"),
]
