from .runner import M

GM = "src/allmydata/grid_manager.py"

VERIFY = ("    try:\n        ed25519.verify_signature(\n            gm_key,\n            alleged_cert.signature,\n"
          "            alleged_cert.certificate,\n        )\n    except ed25519.BadSignature:\n        return None\n")
KEEP = ("            cert = validate_grid_manager_certificate(key, alleged_cert)\n            if cert is not None:\n"
        "                valid_certs.append(cert)\n            else:\n                bad_cert(key, alleged_cert)\n")
DECIDE = ("            if pc == public_key:\n                if expires > now:\n                    # not-expired\n"
          "                    return True\n")

MUTANTS = [
    # ---- C33.1 signature gate
    M("badsig-swallowed", GM, "    except ed25519.BadSignature:\n        return None\n",
      "    except ed25519.BadSignature:\n        pass\n", "C33.1"),
    M("verify-removed", GM, VERIFY, "", "C33.1"),
    M("verify-after-parse-result-ignored", GM, VERIFY + "    # signature is valid; now we can load the actual data\n    cert = json.loads(alleged_cert.certificate)\n    return cert\n",
      "    cert = json.loads(alleged_cert.certificate)\n    try:\n        ed25519.verify_signature(\n            gm_key,\n            alleged_cert.signature,\n            alleged_cert.certificate,\n        )\n    except ed25519.BadSignature:\n        bad = True\n    return cert\n", "C33.1"),
    M("verify-self-signed", GM,
      "        ed25519.verify_signature(\n            gm_key,\n            alleged_cert.signature,",
      "        ed25519.verify_signature(\n            ed25519.verifying_key_from_string(json.loads(alleged_cert.certificate)['public_key'].encode('ascii')),\n            alleged_cert.signature,", "C33.1"),
    M("verify-args-swapped", GM,
      "            gm_key,\n            alleged_cert.signature,\n            alleged_cert.certificate,\n        )\n    except",
      "            gm_key,\n            alleged_cert.certificate,\n            alleged_cert.signature,\n        )\n    except", "C33.1"),
    M("parse-other-bytes", GM, "    cert = json.loads(alleged_cert.certificate)\n    return cert\n",
      "    cert = json.loads(alleged_cert.marshal()['certificate'])\n    return cert\n", "C33.1"),
    # ---- C33.2 only verified certificates are kept
    M("keep-unconditionally", GM, KEEP,
      "            cert = validate_grid_manager_certificate(key, alleged_cert)\n            valid_certs.append(cert)\n"
      "            if cert is None:\n                bad_cert(key, alleged_cert)\n", "C33.2"),
    M("keep-test-flipped", GM, "            if cert is not None:\n                valid_certs.append(cert)",
      "            if cert is None:\n                valid_certs.append(cert)", "C33.2"),
    M("keep-unverified-json", GM, "                valid_certs.append(cert)\n            else:\n                bad_cert(key, alleged_cert)\n",
      "                valid_certs.append(cert)\n            else:\n                bad_cert(key, alleged_cert)\n"
      "                valid_certs.append(json.loads(alleged_cert.certificate))\n", "C33.2"),
    M("keep-all-certs-upfront", GM, "    valid_certs = []\n", "    valid_certs = [json.loads(c.certificate) for c in certs]\n", "C33.2"),
    # ---- C33.3 the predicate
    M("expiry-inclusive", GM, "                if expires > now:", "                if expires >= now:", "C33.3"),
    M("expiry-flipped", GM, "                if expires > now:", "                if expires < now:", "C33.3"),
    M("expiry-unchecked", GM, DECIDE, "            if pc == public_key:\n                return True\n", "C33.3"),
    M("other-server-cert-accepted", GM, DECIDE, "            if expires > now:\n                return True\n", "C33.3"),
    M("server-compare-flipped", GM, "            if pc == public_key:", "            if pc != public_key:", "C33.3"),
    M("time-read-once", GM, "        now = now_fn()\n        for cert in valid_certs:", "        for cert in valid_certs:", "C33.3",
      edits=[(GM, "    def validate():\n", "    now = now_fn()\n\n    def validate():\n")]),
    M("default-true-after-loop", GM, "                    return True\n        return False\n", "                    return True\n        return True\n", "C33.3"),
    M("clock-naive", GM, "    return datetime.now(timezone.utc)\n", "    return datetime.utcnow()\n", "C33.3"),
    M("clock-default-dropped", GM, "    now_fn = current_datetime_with_zone if now_fn is None else now_fn\n", "", "C33.3"),
    # ---- C33.4 which predicate
    M("open-when-no-certs", GM, "    if not keys:\n        return lambda: True\n", "    if not certs:\n        return lambda: True\n", "C33.4"),
    M("open-when-nothing-verified", GM, "    def validate():\n",
      "    if not valid_certs:\n        return lambda: True\n\n    def validate():\n", "C33.4"),
    M("no-keys-nobody-permitted", GM, "    if not keys:\n        return lambda: True\n\n", "", "C33.4"),
    M("no-keys-closed", GM, "    if not keys:\n        return lambda: True\n", "    if not keys:\n        return lambda: False\n", "C33.4"),
    # ---- benign
    M("benign-expiry-reordered", GM, "                if expires > now:", "                if now < expires:", None),
    M("benign-expiry-negated", GM, "                if expires > now:", "                if not (expires <= now):", None),
    M("benign-conjunction", GM, DECIDE, "            if pc == public_key and expires > now:\n                return True\n", None),
    M("benign-loopvar-renamed", GM,
      "        for cert in valid_certs:\n            expires = datetime.fromisoformat(cert[\"expires\"])\n            pc = cert['public_key'].encode('ascii')\n",
      "        for vc in valid_certs:\n            expires = datetime.fromisoformat(vc[\"expires\"])\n            pc = vc['public_key'].encode('ascii')\n", None),
    M("benign-keep-else-first", GM, KEEP,
      "            checked = validate_grid_manager_certificate(key, alleged_cert)\n            if checked is None:\n"
      "                bad_cert(key, alleged_cert)\n            else:\n                valid_certs.append(checked)\n", None),
    M("benign-bytes-hoisted", GM, VERIFY + "    # signature is valid; now we can load the actual data\n    cert = json.loads(alleged_cert.certificate)\n    return cert\n",
      "    data = alleged_cert.certificate\n    try:\n        ed25519.verify_signature(gm_key, alleged_cert.signature, data)\n"
      "    except ed25519.BadSignature:\n        return None\n    return json.loads(data)\n", None),
    M("benign-no-keys-len", GM, "    if not keys:\n        return lambda: True\n", "    if len(keys) == 0:\n        return lambda: True\n", None),
    # ---- vanished anchor
    M("vanish-factory", GM, "def create_grid_manager_verifier(keys, certs, public_key, now_fn=None, bad_cert=None):",
      "def create_grid_manager_verifier2(keys, certs, public_key, now_fn=None, bad_cert=None):", "ANALYSIS-ERROR"),
]
