from .runner import M

GM = "src/allmydata/grid_manager.py"

VERIFY = ("    try:\n        ed25519.verify_signature(\n            gm_key,\n            alleged_cert.signature,\n"
          "            alleged_cert.certificate,\n        )\n    except ed25519.BadSignature:\n        return None\n")
KEEP = ("            cert = validate_grid_manager_certificate(key, alleged_cert)\n            if cert is not None:\n"
        "                valid_certs.append(cert)\n            else:\n                bad_cert(key, alleged_cert)\n")
DECIDE = ("            if pc == public_key:\n                if expires > now:\n                    # not-expired\n"
          "                    return True\n")

SC = "src/allmydata/storage_client.py"
UP_BODY = ("        # if we have no Grid Manager keys configured, choice is easy\n        if self._grid_manager_verifier is None:\n"
           "            return True\n        return self._grid_manager_verifier()\n")
TAIL_N = "\n    def get_permutation_seed(self):\n        return self._storage.permutation_seed\n"
TAIL_H = "\n    # Special methods used by copy.copy() and copy.deepcopy()."
UP_N = UP_BODY + TAIL_N        # NativeStorageServer.upload_permitted
UP_H = UP_BODY + TAIL_H        # HTTPNativeStorageServer.upload_permitted
DOC = ('        """\n        If our client is configured with Grid Manager public-keys, we will\n'
       "        only upload to storage servers that have a currently-valid\n        certificate signed by at least one of the Grid Managers we\n"
       '        accept.\n\n        :return: True if we should use this server for uploads, False\n            otherwise.\n        """\n')
INIT_N = "        self._grid_manager_verifier = grid_manager_verifier\n\n        self._storage = _make_storage_system("
INIT_H = "        self._grid_manager_verifier = grid_manager_verifier\n        self._storage_client_factory = StorageClientFactory("
UP_MEMO = ("        # only do the certificate processing once per server\n        if self._upload_permitted is None:\n"
           "            if self._grid_manager_verifier is None:\n                self._upload_permitted = True\n            else:\n"
           "                self._upload_permitted = self._grid_manager_verifier()\n        return self._upload_permitted\n")

MUTANTS = [
    # ---- C33.1 signature gate
    M("badsig-swallowed", GM, "    except ed25519.BadSignature:\n        return None\n",
      "    except ed25519.BadSignature:\n        pass\n", "C33.1"),
    M("verify-removed", GM, VERIFY, "", "C33.1"),
    M("verify-after-parse-result-ignored", GM, VERIFY + "    # signature is valid; now we can load the actual data\n    cert = json.loads(alleged_cert.certificate)\n    return cert\n",
      "    cert = json.loads(alleged_cert.certificate)\n    try:\n        ed25519.verify_signature(\n            gm_key,\n            alleged_cert.signature,\n            alleged_cert.certificate,\n        )\n    except ed25519.BadSignature:\n        bad = True\n    return cert\n", "C33.1"),
    M("verify-self-signed", GM,
      "        ed25519.verify_signature(\n            gm_key,\n            alleged_cert.signature,",
      "        ed25519.verify_signature(\n            ed25519.verifying_key_from_string(json.loads(alleged_cert.certificate)['public_key'].encode('ascii')),\n            alleged_cert.signature,", "C33.1"),
    M("verify-args-swapped", GM,
      "            gm_key,\n            alleged_cert.signature,\n            alleged_cert.certificate,\n        )\n    except",
      "            gm_key,\n            alleged_cert.certificate,\n            alleged_cert.signature,\n        )\n    except", "C33.1"),
    M("parse-other-bytes", GM, "    cert = json.loads(alleged_cert.certificate)\n    return cert\n",
      "    cert = json.loads(alleged_cert.marshal()['certificate'])\n    return cert\n", "C33.1"),
    # ---- C33.2 only verified certificates are kept
    M("keep-unconditionally", GM, KEEP,
      "            cert = validate_grid_manager_certificate(key, alleged_cert)\n            valid_certs.append(cert)\n"
      "            if cert is None:\n                bad_cert(key, alleged_cert)\n", "C33.2"),
    M("keep-test-flipped", GM, "            if cert is not None:\n                valid_certs.append(cert)",
      "            if cert is None:\n                valid_certs.append(cert)", "C33.2"),
    M("keep-unverified-json", GM, "                valid_certs.append(cert)\n            else:\n                bad_cert(key, alleged_cert)\n",
      "                valid_certs.append(cert)\n            else:\n                bad_cert(key, alleged_cert)\n"
      "                valid_certs.append(json.loads(alleged_cert.certificate))\n", "C33.2"),
    M("keep-all-certs-upfront", GM, "    valid_certs = []\n", "    valid_certs = [json.loads(c.certificate) for c in certs]\n", "C33.2"),
    # ---- C33.3 the predicate
    M("expiry-inclusive", GM, "                if expires > now:", "                if expires >= now:", "C33.3"),
    M("expiry-flipped", GM, "                if expires > now:", "                if expires < now:", "C33.3"),
    M("expiry-unchecked", GM, DECIDE, "            if pc == public_key:\n                return True\n", "C33.3"),
    M("other-server-cert-accepted", GM, DECIDE, "            if expires > now:\n                return True\n", "C33.3"),
    M("server-compare-flipped", GM, "            if pc == public_key:", "            if pc != public_key:", "C33.3"),
    M("time-read-once", GM, "        now = now_fn()\n        for cert in valid_certs:", "        for cert in valid_certs:", "C33.3",
      edits=[(GM, "    def validate():\n", "    now = now_fn()\n\n    def validate():\n")]),
    M("default-true-after-loop", GM, "                    return True\n        return False\n", "                    return True\n        return True\n", "C33.3"),
    M("clock-naive", GM, "    return datetime.now(timezone.utc)\n", "    return datetime.utcnow()\n", "C33.3"),
    M("clock-default-dropped", GM, "    now_fn = current_datetime_with_zone if now_fn is None else now_fn\n", "", "C33.3"),
    # ---- C33.4 which predicate
    M("open-when-no-certs", GM, "    if not keys:\n        return lambda: True\n", "    if not certs:\n        return lambda: True\n", "C33.4"),
    M("open-when-nothing-verified", GM, "    def validate():\n",
      "    if not valid_certs:\n        return lambda: True\n\n    def validate():\n", "C33.4"),
    M("no-keys-nobody-permitted", GM, "    if not keys:\n        return lambda: True\n\n", "", "C33.4"),
    M("no-keys-closed", GM, "    if not keys:\n        return lambda: True\n", "    if not keys:\n        return lambda: False\n", "C33.4"),
    # ---- benign
    M("benign-expiry-reordered", GM, "                if expires > now:", "                if now < expires:", None),
    M("benign-expiry-negated", GM, "                if expires > now:", "                if not (expires <= now):", None),
    M("benign-conjunction", GM, DECIDE, "            if pc == public_key and expires > now:\n                return True\n", None),
    M("benign-loopvar-renamed", GM,
      "        for cert in valid_certs:\n            expires = datetime.fromisoformat(cert[\"expires\"])\n            pc = cert['public_key'].encode('ascii')\n",
      "        for vc in valid_certs:\n            expires = datetime.fromisoformat(vc[\"expires\"])\n            pc = vc['public_key'].encode('ascii')\n", None),
    M("benign-keep-else-first", GM, KEEP,
      "            checked = validate_grid_manager_certificate(key, alleged_cert)\n            if checked is None:\n"
      "                bad_cert(key, alleged_cert)\n            else:\n                valid_certs.append(checked)\n", None),
    M("benign-bytes-hoisted", GM, VERIFY + "    # signature is valid; now we can load the actual data\n    cert = json.loads(alleged_cert.certificate)\n    return cert\n",
      "    data = alleged_cert.certificate\n    try:\n        ed25519.verify_signature(gm_key, alleged_cert.signature, data)\n"
      "    except ed25519.BadSignature:\n        return None\n    return json.loads(data)\n", None),
    M("benign-no-keys-len", GM, "    if not keys:\n        return lambda: True\n", "    if len(keys) == 0:\n        return lambda: True\n", None),
    # ---- C33.3 the certificate judged is the loop's certificate (half-finished rename: `cert` is the factory's variable)
    M("loopvar-half-renamed", GM, "        for cert in valid_certs:\n            expires = datetime.fromisoformat(cert[\"expires\"])",
      "        for vc in valid_certs:\n            expires = datetime.fromisoformat(cert[\"expires\"])", "C33.3"),
    M("loopvar-renamed-expiry-left-behind", GM,
      "        for cert in valid_certs:\n            expires = datetime.fromisoformat(cert[\"expires\"])\n            pc = cert['public_key'].encode('ascii')\n",
      "        for vc in valid_certs:\n            expires = datetime.fromisoformat(cert[\"expires\"])\n            pc = vc['public_key'].encode('ascii')\n", "C33.3"),
    M("expiry-parsed-in-factory", GM, "            if cert is not None:\n                valid_certs.append(cert)",
      "            if cert is not None:\n                expires = datetime.fromisoformat(cert[\"expires\"])\n                valid_certs.append(cert)", "C33.3",
      edits=[(GM, "        for cert in valid_certs:\n            expires = datetime.fromisoformat(cert[\"expires\"])\n", "        for cert in valid_certs:\n")]),
    # ---- C33.5 the answer is computed when the question is asked
    M("verdict-memoised-foolscap", SC, UP_N, UP_MEMO + TAIL_N, "C33.5",
      edits=[(SC, INIT_N, "        self._upload_permitted = None\n" + INIT_N)]),
    M("verdict-memoised-http", SC, UP_H, UP_MEMO + TAIL_H, "C33.5",
      edits=[(SC, INIT_H, "        self._upload_permitted = None\n" + INIT_H)]),
    M("only-yes-remembered", SC, UP_N,
      "        if self._grid_manager_verifier is None:\n            return True\n        if self._was_permitted:\n            return True\n"
      "        self._was_permitted = self._grid_manager_verifier()\n        return self._was_permitted\n" + TAIL_N, "C33.5",
      edits=[(SC, INIT_N, "        self._was_permitted = False\n" + INIT_N)]),
    M("asked-at-construction", SC, UP_H, "        return self._permitted\n" + TAIL_H, "C33.5",
      edits=[(SC, INIT_H, "        self._permitted = True if grid_manager_verifier is None else grid_manager_verifier()\n" + INIT_H)]),
    M("verdict-lru-cached", SC, "    def upload_permitted(self):\n" + DOC + UP_N, "    @lru_cache(maxsize=None)\n    def upload_permitted(self):\n" + DOC + UP_N, "C33.5",
      edits=[(SC, "from os import urandom\n", "from os import urandom\nfrom functools import lru_cache\n")]),
    M("predicate-lru-cached", GM, "    def validate():\n", "    @functools.lru_cache(maxsize=None)\n    def validate():\n", "C33.5",
      edits=[(GM, "import sys\n", "import sys\nimport functools\n")]),
    M("clock-cached", GM, "def current_datetime_with_zone():", "@functools.cache\ndef current_datetime_with_zone():", "C33.5",
      edits=[(GM, "import sys\n", "import sys\nimport functools\n")]),
    M("verifier-attr-rebound", SC, UP_N,
      "        if self._grid_manager_verifier is None:\n            return True\n        verdict = self._grid_manager_verifier()\n"
      "        self._grid_manager_verifier = lambda: verdict\n        return verdict\n" + TAIL_N, "C33.5"),
    M("unknown-decorator-undecided", SC, "    def upload_permitted(self):\n" + DOC + UP_N, "    @provides\n    def upload_permitted(self):\n" + DOC + UP_N, "ANALYSIS-ERROR"),
    # ---- C33.6 what is handed to the server objects
    M("answer-frozen-at-announcement", SC, "                grid_manager_verifier=gm_verifier,\n",
      "                grid_manager_verifier=lambda: permitted,\n", "C33.6",
      edits=[(SC, "        if self._should_we_use_http(self.node_config, server[\"ann\"]):\n            s = HTTPNativeStorageServer(",
              "        permitted = gm_verifier()\n        if self._should_we_use_http(self.node_config, server[\"ann\"]):\n            s = HTTPNativeStorageServer(")]),
    M("answer-passed-not-predicate", SC, "            self.storage_client_config,\n            gm_verifier,\n        )",
      "            self.storage_client_config,\n            gm_verifier(),\n        )", "C33.6"),
    M("clock-frozen-at-announcement", SC,
      "            \"pub-{}\".format(str(server_id, \"ascii\")).encode(\"ascii\"),  # server_id is v0-<key> not pub-v0-key .. for reasons?\n        )",
      "            \"pub-{}\".format(str(server_id, \"ascii\")).encode(\"ascii\"),  # server_id is v0-<key> not pub-v0-key .. for reasons?\n"
      "            now_fn=lambda: announced,\n        )", "C33.6",
      edits=[(SC, "        assert isinstance(server_id, bytes)\n        gm_verifier = create_grid_manager_verifier(",
              "        assert isinstance(server_id, bytes)\n        announced = datetime.now(timezone.utc)\n        gm_verifier = create_grid_manager_verifier("),
             (SC, "from os import urandom\n", "from os import urandom\nfrom datetime import datetime, timezone\n")]),
    M("clock-naive-at-call-site", SC,
      "            \"pub-{}\".format(str(server_id, \"ascii\")).encode(\"ascii\"),  # server_id is v0-<key> not pub-v0-key .. for reasons?\n        )",
      "            \"pub-{}\".format(str(server_id, \"ascii\")).encode(\"ascii\"),  # server_id is v0-<key> not pub-v0-key .. for reasons?\n"
      "            now_fn=time.time,\n        )", "C33.6"),
    # ---- benign (C33.5 / C33.6)
    M("benign-verdict-hoisted", SC, UP_N,
      "        verifier = self._grid_manager_verifier\n        if verifier is None:\n            return True\n"
      "        verdict = verifier()\n        return verdict\n" + TAIL_N, None),
    M("benign-verdict-one-expression", SC, UP_H,
      "        return self._grid_manager_verifier is None or self._grid_manager_verifier()\n" + TAIL_H, None),
    M("benign-verdict-conditional-expression", SC, UP_H,
      "        return bool(self._grid_manager_verifier()) if self._grid_manager_verifier is not None else True\n" + TAIL_H, None),
    M("benign-verifier-inlined", SC, "                grid_manager_verifier=gm_verifier,\n",
      "                grid_manager_verifier=verifier,\n", None,
      edits=[(SC, "        if self._should_we_use_http(self.node_config, server[\"ann\"]):\n            s = HTTPNativeStorageServer(",
              "        verifier = gm_verifier\n        if self._should_we_use_http(self.node_config, server[\"ann\"]):\n            s = HTTPNativeStorageServer(")]),
    M("benign-real-clock-passed", SC,
      "            \"pub-{}\".format(str(server_id, \"ascii\")).encode(\"ascii\"),  # server_id is v0-<key> not pub-v0-key .. for reasons?\n        )",
      "            \"pub-{}\".format(str(server_id, \"ascii\")).encode(\"ascii\"),  # server_id is v0-<key> not pub-v0-key .. for reasons?\n"
      "            now_fn=current_datetime_with_zone,\n        )", None,
      edits=[(SC, "    create_grid_manager_verifier, SignedCertificate\n", "    create_grid_manager_verifier, SignedCertificate, current_datetime_with_zone\n")]),
    M("benign-verifier-asked-again-by-wrapper", SC, "                grid_manager_verifier=gm_verifier,\n",
      "                grid_manager_verifier=lambda: gm_verifier(),\n", None),
    M("benign-asked-at-construction-for-logging-only", SC, INIT_H,
      "        self._permitted_when_announced = None if grid_manager_verifier is None else grid_manager_verifier()\n" + INIT_H, None),
    # ---- gap review: a refusal must be the verifier's answer too; the clock default is substituted when none is given
    M("no-verifier-refused", SC, UP_N,
      "        if self._grid_manager_verifier is None:\n            return None\n        return self._grid_manager_verifier()\n" + TAIL_N, "C33.5"),
    M("verifier-answer-dropped", SC, UP_H,
      "        if self._grid_manager_verifier is None:\n            return True\n        return None\n" + TAIL_H, "C33.5"),
    M("verifier-asked-answer-not-returned", SC, UP_N,
      "        if self._grid_manager_verifier is None:\n            return True\n        permitted = self._grid_manager_verifier()\n" + TAIL_N, "C33.5"),
    M("no-verifier-refused-by-conjunction", SC, UP_H,
      "        return self._grid_manager_verifier is not None and self._grid_manager_verifier()\n" + TAIL_H, "C33.5"),
    M("refusal-on-the-yes-branch", SC, UP_N,
      "        if self._grid_manager_verifier is None:\n            return True\n        if self._grid_manager_verifier():\n"
      "            return False\n        return True\n" + TAIL_N, "C33.5"),
    M("clock-default-test-flipped", GM, "    now_fn = current_datetime_with_zone if now_fn is None else now_fn\n",
      "    now_fn = current_datetime_with_zone if now_fn is not None else now_fn\n", "C33.3"),
    M("clock-default-statement-flipped", GM, "    now_fn = current_datetime_with_zone if now_fn is None else now_fn\n",
      "    if now_fn is not None:\n        now_fn = current_datetime_with_zone\n", "C33.3"),
    M("clock-default-branches-swapped", GM, "    now_fn = current_datetime_with_zone if now_fn is None else now_fn\n",
      "    now_fn = now_fn if now_fn is None else current_datetime_with_zone\n", "C33.3"),
    M("benign-verdict-spelled-out", SC, UP_N,
      "        if self._grid_manager_verifier is None:\n            return True\n        if self._grid_manager_verifier():\n"
      "            return True\n        return False\n" + TAIL_N, None),
    M("benign-refusal-first", SC, UP_H,
      "        if self._grid_manager_verifier is not None and not self._grid_manager_verifier():\n            return False\n"
      "        return True\n" + TAIL_H, None),
    M("benign-verdict-local-tested", SC, UP_H,
      "        verifier = self._grid_manager_verifier\n        if verifier is None:\n            return True\n"
      "        permitted = verifier()\n        if not permitted:\n            return False\n        return True\n" + TAIL_H, None),
    M("benign-refusal-by-falling-off-the-end", SC, UP_N,
      "        if self._grid_manager_verifier is None:\n            return True\n        if self._grid_manager_verifier():\n"
      "            return True\n" + TAIL_N, None),
    M("benign-verdict-conditional-on-answer", SC, UP_N,
      "        if self._grid_manager_verifier is None:\n            return True\n"
      "        return True if self._grid_manager_verifier() else False\n" + TAIL_N, None),
    M("benign-clock-default-statement", GM, "    now_fn = current_datetime_with_zone if now_fn is None else now_fn\n",
      "    if now_fn is None:\n        now_fn = current_datetime_with_zone\n", None),
    M("benign-clock-default-or", GM, "    now_fn = current_datetime_with_zone if now_fn is None else now_fn\n",
      "    now_fn = now_fn or current_datetime_with_zone\n", None),
    M("benign-clock-default-reordered", GM, "    now_fn = current_datetime_with_zone if now_fn is None else now_fn\n",
      "    now_fn = now_fn if now_fn is not None else current_datetime_with_zone\n", None),
    M("benign-verdict-defaulted-then-asked", SC, UP_N,
      "        permitted = True\n        if self._grid_manager_verifier is not None:\n"
      "            permitted = self._grid_manager_verifier()\n        return permitted\n" + TAIL_N, None),
    M("verdict-defaulted-to-refusal", SC, UP_H,
      "        permitted = False\n        if self._grid_manager_verifier is not None:\n"
      "            permitted = self._grid_manager_verifier()\n        return permitted\n" + TAIL_H, "C33.5"),
    M("verdict-defaulted-yes-never-asked", SC, UP_H,
      "        permitted = True\n        if self._grid_manager_verifier is None:\n"
      "            permitted = True\n        return permitted\n" + TAIL_H, "C33.5"),
    # ---- vanished anchor
    M("vanish-factory", GM, "def create_grid_manager_verifier(keys, certs, public_key, now_fn=None, bad_cert=None):",
      "def create_grid_manager_verifier2(keys, certs, public_key, now_fn=None, bad_cert=None):", "ANALYSIS-ERROR"),
]
