"""Self-test variants for C34.

NOTE: on the unchanged tree C34.3 reports a genuine finding (got_announcements
catches only BadSignature).  Until that finding is repaired in /repo or
recorded in known_findings.json the plain benign variants below also show it
(the runner filters recorded findings); `benign-handler-repaired*` contain the
repair and are silent in every state where their anchor exists."""
from .runner import M

CL = "src/allmydata/introducer/client.py"
CO = "src/allmydata/introducer/common.py"
SV = "src/allmydata/introducer/server.py"
ED = "src/allmydata/crypto/ed25519.py"
LIBV = "        public_key.verify(alleged_signature, data)\n"

TRY = ("            try:\n                # this might raise UnknownKeyError or bad-sig error\n"
       "                ann, key_s = unsign_from_foolscap(ann_t)\n                # key is \"v0-base32abc123\"\n"
       "                precondition(isinstance(key_s, bytes), key_s)\n            except BadSignature:\n"
       "                self.log(\"bad signature on inbound announcement: %s\" % (ann_t,),\n"
       "                         parent=lp, level=log.WEIRD, umid=\"ZAU15Q\")\n"
       "                # process other announcements that arrived with the bad one\n                continue\n")
CONT = "                # process other announcements that arrived with the bad one\n                continue\n"
IMPORT = ("from allmydata.introducer.common import sign_to_foolscap, unsign_from_foolscap,\\\n"
          "     get_tubid_string_from_ann\n")

B32 = "src/allmydata/util/base32.py"
CU = "src/allmydata/crypto/util.py"
VKGUARD = "        raise ValueError('public_key_bytes must be bytes')\n\n"
VKRET = ("    return Ed25519PublicKey.from_public_bytes(\n        a2b(remove_prefix(public_key_bytes, PUBLIC_KEY_PREFIX))\n    )\n")
A2BPRE = "    precondition(could_be_base32_encoded(cs), \"cs is required to be possibly base32 encoded data.\", cs=cs)\n"
COULDRET = "    return s8[len(s)%8][s[-1]] and not tr(s, identitytranstable, chars)\n"

GENERIC = "            except Exception:\n                # an unsigned, unknown-key-format or otherwise malformed\n                # announcement must not keep us from processing the others\n                # that arrived in the same batch\n                self.log(\"malformed inbound announcement: %s\" % (ann_t,),\n                         parent=lp, level=log.WEIRD, umid=\"gBPmDw\")\n                continue\n"

MUTANTS = [
    # ---- C34.1 verification gate
    M("verify-dropped", CO, "    ed25519.verify_signature(claimed_key, sig_bytes, msg)\n", "", "C34.1"),
    M("unsigned-accepted", CO,
      "        raise UnknownKeyError(\"only signed announcements recognized\")\n",
      "        return (json.loads(msg.decode(\"utf-8\")), claimed_key_vs)\n", "C34.1"),
    M("verify-normalised-bytes", CO, "    ed25519.verify_signature(claimed_key, sig_bytes, msg)\n",
      "    ed25519.verify_signature(claimed_key, sig_bytes, msg.strip())\n", "C34.1"),
    M("verify-failure-logged-only", CO, "    ed25519.verify_signature(claimed_key, sig_bytes, msg)\n",
      "    try:\n        ed25519.verify_signature(claimed_key, sig_bytes, msg)\n    except Exception:\n        pass\n", "C34.1"),
    M("key-from-announcement-body", CO, "    key_vs = claimed_key_vs\n    ann = json.loads(msg.decode(\"utf-8\"))\n",
      "    ann = json.loads(msg.decode(\"utf-8\"))\n    key_vs = ann.get(\"key\", claimed_key_vs)\n", "C34.1"),
    M("client-skips-unsign", CL, "    def _got_error(self, f):\n",
      "    def remote_announce_raw(self, anns):\n        for (ann, key_s) in anns:\n"
      "            self._process_announcement(ann, key_s)\n\n    def _got_error(self, f):\n", "C34.1"),
    # ---- C34.2 replay rule
    M("seqnum-equal-replaces", CL, "                if ann[\"seqnum\"] <= old[\"seqnum\"]:", "                if ann[\"seqnum\"] < old[\"seqnum\"]:", "C34.2"),
    M("seqnum-compare-flipped", CL, "                if ann[\"seqnum\"] <= old[\"seqnum\"]:", "                if ann[\"seqnum\"] >= old[\"seqnum\"]:", "C34.2"),
    M("seqnum-type-unchecked", CL,
      "                if (\"seqnum\" not in ann\n                    or not isinstance(ann[\"seqnum\"], int)):",
      "                if (\"seqnum\" not in ann):", "C34.2"),
    M("seqnum-replay-logged-only", CL,
      "                             parent=lp2, level=log.UNUSUAL, umid=\"JAAAoQ\")\n                    return\n",
      "                             parent=lp2, level=log.UNUSUAL, umid=\"JAAAoQ\")\n", "C34.2"),
    M("seqnum-missing-logged-only", CL,
      "                             parent=lp2, level=log.NOISY, umid=\"zFGH3Q\")\n                    return\n",
      "                             parent=lp2, level=log.NOISY, umid=\"zFGH3Q\")\n", "C34.2"),
    M("store-before-check", CL, "        # does it update an existing one?\n",
      "        self._inbound_announcements[index] = (ann, key_s, time.time())\n        # does it update an existing one?\n", "C34.2"),
    M("index-by-tubid", CL, "        index = (service_name, key_s)\n",
      "        index = (service_name, get_tubid_string_from_ann(ann))\n", "C34.2"),
    M("deliver-before-check", CL, "        # is this announcement a duplicate?\n",
      "        self._deliver_announcements(key_s, ann)\n        # is this announcement a duplicate?\n", "C34.2"),
    M("forget-on-disconnect", CL, "        self._subscriptions.clear()\n",
      "        self._subscriptions.clear()\n        self._inbound_announcements.clear()\n", "C34.2"),
    # ---- C34.3 exception escape
    # the repaired handler (fix: commit in /repo) catches everything; the original defect and its
    # relatives return when the generic handler is removed or narrowed
    M("generic-handler-removed", CL, GENERIC, "", "C34.3"),
    M("generic-handler-narrowed", CL, "            except Exception:\n                # an unsigned", "            except UnknownKeyError:\n                # an unsigned", "C34.3",
      edits=[(CL, IMPORT, "from allmydata.introducer.common import sign_to_foolscap, unsign_from_foolscap,\\\n"
                          "     get_tubid_string_from_ann, UnknownKeyError\n")]),
    M("try-removed", CL, TRY + GENERIC, "            ann, key_s = unsign_from_foolscap(ann_t)\n", "C34.3"),
    M("new-exception-class-with-narrow-handler", CO, "    if not sig_vs.startswith(b\"v0-\"):\n",
      "    if len(msg) > 1000000:\n        raise AnnouncementTooLarge(len(msg))\n    if not sig_vs.startswith(b\"v0-\"):\n", "C34.3",
      edits=[(CO, "class UnknownKeyError(Exception):\n    pass\n",
              "class UnknownKeyError(Exception):\n    pass\n\n\nclass AnnouncementTooLarge(Exception):\n    pass\n"),
             (CL, "            except Exception:\n                # an unsigned", "            except (ValueError, AssertionError):\n                # an unsigned")]),
    # ---- C34.5 handler continues
    M("handler-falls-through", CL, CONT, "", "C34.5"),
    M("handler-returns", CL, CONT, "                return\n", "C34.5"),
    M("handler-breaks", CL, CONT, "                break\n", "C34.5"),
    M("handler-reraises", CL, CONT, "                raise\n", "C34.5"),
    # ---- C34.4 introducer server
    M("server-seqnum-equal-replaces", SV, "                    if ann[\"seqnum\"] <= old_ann[\"seqnum\"]:",
      "                    if ann[\"seqnum\"] < old_ann[\"seqnum\"]:", "C34.4"),
    M("server-no-seqnum-accepted", SV,
      "                        self._debug_counts[\"inbound_no_seqnum\"] += 1\n                        return\n",
      "                        self._debug_counts[\"inbound_no_seqnum\"] += 1\n", "C34.4"),
    # ---- C34.6 the library check inside crypto.ed25519.verify_signature
    M("libverify-dropped", ED, LIBV, "        pass\n", "C34.6"),
    M("libverify-args-swapped", ED, LIBV, "        public_key.verify(data, alleged_signature)\n", "C34.6"),
    M("libverify-empty-signature-skipped", ED, "    _validate_public_key(public_key)\n    try:\n" + LIBV,
      "    _validate_public_key(public_key)\n    if not alleged_signature:\n        return None\n    try:\n" + LIBV, "C34.6"),
    M("libverify-failure-returns-false", ED, LIBV + "    except InvalidSignature:\n        raise BadSignature()\n",
      LIBV + "    except InvalidSignature:\n        return False\n", "C34.6"),
    M("libverify-normalised-data", ED, LIBV, "        data = data.strip()\n        public_key.verify(alleged_signature, data)\n", "C34.6"),
    M("libverify-other-key", ED, LIBV,
      "        Ed25519PublicKey.from_public_bytes(data[:32]).verify(alleged_signature, data)\n", "C34.6"),
    M("benign-libverify-keywords", ED, LIBV, "        public_key.verify(signature=alleged_signature, data=data)\n", None),
    M("benign-libverify-hoisted", ED, LIBV,
      "        sig = alleged_signature\n        signed = data\n        key = public_key\n        key.verify(sig, signed)\n", None),
    M("benign-libverify-else-return", ED, LIBV + "    except InvalidSignature:\n        raise BadSignature()\n",
      LIBV + "    except InvalidSignature:\n        raise BadSignature()\n    else:\n        return None\n", None),
    M("vanish-verify-signature", ED, "def verify_signature(public_key, alleged_signature: bytes, data: bytes):",
      "def verify_signature_v2(public_key, alleged_signature: bytes, data: bytes):", "ANALYSIS-ERROR"),
    # ---- C34.7 one key string, one key: the decoding of the claimed key string is one-to-one
    M("keystring-normalised-before-decoding", ED, VKGUARD,
      VKGUARD + "    public_key_bytes = public_key_bytes.strip().lower()\n", "C34.7"),
    M("keystring-stripped-by-unsign", CO, "ed25519.verifying_key_from_string(b\"pub-\" + claimed_key_vs)",
      "ed25519.verifying_key_from_string(b\"pub-\" + claimed_key_vs.strip())", "C34.7"),
    M("keystring-truncated", CO, "ed25519.verifying_key_from_string(b\"pub-\" + claimed_key_vs)",
      "ed25519.verifying_key_from_string(b\"pub-\" + claimed_key_vs[:55])", "C34.7"),
    M("keystring-version-prefix-unchecked", CO,
      "    if not claimed_key_vs.startswith(b\"v0-\"):\n        raise UnknownKeyError(\"only v0- keys recognized\")\n", "",
      "C34.7", edits=[(CO, "ed25519.verifying_key_from_string(b\"pub-\" + claimed_key_vs)",
                       "ed25519.verifying_key_from_string(b\"pub-v0-\" + claimed_key_vs[3:])")]),
    M("keystring-whitespace-removed-by-regex", ED, VKGUARD,
      VKGUARD + "    import re\n    public_key_bytes = re.sub(br\"\\s+\", b\"\", public_key_bytes)\n", "C34.7"),
    M("a2b-tolerates-upper-case", B32, A2BPRE, "    cs = cs.lower()\n" + A2BPRE, "C34.7"),
    M("a2b-alphabet-check-dropped", B32, A2BPRE, "", "C34.7"),
    M("a2b-lenient-library-decode", B32, A2BPRE + "    precondition(isinstance(cs, bytes), cs)\n\n    cs = cs.upper()\n",
      "    precondition(isinstance(cs, bytes), cs)\n\n", "C34.7",
      edits=[(B32, "    return base64.b32decode(cs)\n", "    return base64.b32decode(cs, casefold=True)\n")]),
    M("base32-last-character-unchecked", B32, COULDRET, "    return not tr(s, identitytranstable, chars)\n", "C34.7"),
    # the validator lets several last characters through that differ only in the bits b32decode drops
    M("base32-last-character-length-class-only", B32, COULDRET,
      "    return bool(NUM_QS_LEGIT[len(s)%8]) and not tr(s, identitytranstable, chars)\n", "C34.7"),
    M("base32-last-character-table-all-chars", B32,
      "            add_check_array(get_trailing_chars_without_lsbs(5-(NUM_QS_TO_NUM_BITS[lenmod8]%5)), s8)\n",
      "            add_check_array(chars, s8)\n", "C34.7"),
    M("base32-last-character-table-one-bit-generous", B32,
      "            add_check_array(get_trailing_chars_without_lsbs(5-(NUM_QS_TO_NUM_BITS[lenmod8]%5)), s8)\n",
      "            add_check_array(get_trailing_chars_without_lsbs(4-(NUM_QS_TO_NUM_BITS[lenmod8]%5)), s8)\n", "C34.7"),
    M("base32-last-character-checked-for-short-strings-only", B32, COULDRET,
      "    return (len(s) > 40 or s8[len(s)%8][s[-1]]) and not tr(s, identitytranstable, chars)\n", "C34.7"),
    M("base32-last-character-length-only-not-evaluable", B32, COULDRET,
      "    import math\n    return bool(NUM_QS_LEGIT[int(math.fmod(len(s), 8))]) and not tr(s, identitytranstable, chars)\n", "C34.7"),
    M("benign-base32-last-character-early-return", B32, COULDRET,
      "    if not s8[len(s)%8][s[-1]]:\n        return False\n    return not tr(s, identitytranstable, chars)\n", None),
    M("benign-base32-last-character-by-length-index", B32, COULDRET,
      "    n = len(s)\n    row = s8[n % 8]\n    return row[s[n - 1]] and not tr(s, identitytranstable, chars)\n", None),
    M("benign-base32-not-evaluable-but-reads-last", B32, COULDRET,
      "    import math\n    return s8[len(s)%8][s[-1]] and not tr(s, identitytranstable, chars)\n", None),
    M("base32-alphabet-unchecked", B32, COULDRET, "    return s8[len(s)%8][s[-1]]\n", "C34.7"),
    M("base32-alphabet-both-cases", B32, "identitytranstable=identitytranstable, chars=chars):\n    precondition(isinstance(s, bytes), s)",
      "identitytranstable=identitytranstable, chars=chars + b\"ABCDEFGHIJKLMNOPQRSTUVWXYZ\"):\n    precondition(isinstance(s, bytes), s)",
      "C34.7"),
    M("benign-keystring-decoding-hoisted", ED, VKRET,
      "    raw = remove_prefix(public_key_bytes, PUBLIC_KEY_PREFIX)\n    key_bytes = a2b(raw)\n"
      "    return Ed25519PublicKey.from_public_bytes(key_bytes)\n", None),
    M("benign-keystring-checked-prefix-replaced", CO, "ed25519.verifying_key_from_string(b\"pub-\" + claimed_key_vs)",
      "ed25519.verifying_key_from_string(b\"pub-v0-\" + claimed_key_vs[3:])", None),
    M("benign-remove-prefix-guard-inverted", CU,
      "    if s_bytes.startswith(prefix):\n        return s_bytes[len(prefix):]\n    raise BadPrefixError(\n"
      "        \"did not see expected '{!r}' prefix\".format(prefix)\n    )\n",
      "    if not s_bytes.startswith(prefix):\n        raise BadPrefixError(\n"
      "            \"did not see expected '{!r}' prefix\".format(prefix)\n        )\n    rest = s_bytes[len(prefix):]\n    return rest\n", None),
    M("benign-a2b-padding-spelled-out", B32, "        cs += b\"=\"\n", "        cs = cs + b\"=\"\n", None),
    M("benign-a2b-upper-into-new-local", B32,
      "    cs = cs.upper()\n    # Add padding back, to make Python's base64 module happy:\n    while (len(cs) * 5) % 8 != 0:\n"
      "        cs += b\"=\"\n\n    return base64.b32decode(cs)\n",
      "    padded = cs.upper()\n    while (len(padded) * 5) % 8 != 0:\n        padded += b\"=\"\n\n    return base64.b32decode(padded)\n", None),
    M("benign-a2b-redundant-casefold-flag", B32, "    return base64.b32decode(cs)\n", "    return base64.b32decode(cs, casefold=True)\n", None),
    M("benign-base32-empty-test-by-truth", B32, "    if s == b'':\n        return True\n", "    if not s:\n        return True\n", None),
    M("benign-base32-conjuncts-swapped", B32, COULDRET, "    return not tr(s, identitytranstable, chars) and s8[len(s)%8][s[-1:][0]]\n", None),
    M("vanish-verifying-key-from-string", ED, "def verifying_key_from_string(public_key_bytes):",
      "def verifying_key_from_string_v2(public_key_bytes):", "ANALYSIS-ERROR"),
    # ---- benign
    M("benign-handler-repaired",CL, "            except BadSignature:\n", "            except Exception:\n", None),
    M("benign-handler-repaired-tuple", CL, "            except BadSignature:\n",
      "            except (BadSignature, UnknownKeyError, ValueError, AssertionError):\n", None,
      edits=[(CL, IMPORT, "from allmydata.introducer.common import sign_to_foolscap, unsign_from_foolscap,\\\n"
                          "     get_tubid_string_from_ann, UnknownKeyError\n")]),
    M("benign-seqnum-negated", CL, "                if ann[\"seqnum\"] <= old[\"seqnum\"]:",
      "                if not (ann[\"seqnum\"] > old[\"seqnum\"]):", None),
    M("benign-seqnum-hoisted", CL, "                if ann[\"seqnum\"] <= old[\"seqnum\"]:",
      "                new_seq = ann[\"seqnum\"]\n                old_seq = old[\"seqnum\"]\n                if old_seq >= new_seq:", None),
    M("benign-old-renamed", CL,
      "            old,_,_ = self._inbound_announcements[index]\n            if \"seqnum\" in old:",
      "            previous = self._inbound_announcements[index][0]\n            old = previous\n            if \"seqnum\" in previous:", None),
    M("benign-unsign-direct-return", CO, "    key_vs = claimed_key_vs\n    ann = json.loads(msg.decode(\"utf-8\"))\n    return (ann, key_vs)\n",
      "    return (json.loads(msg.decode(\"utf-8\")), claimed_key_vs)\n", None),
    M("benign-server-old-is-not-none", SV, "        if old:\n            (old_ann_t, canary, old_ann, timestamp) = old\n",
      "        if old is not None:\n            (old_ann_t, canary, old_ann, timestamp) = old\n", None),
    # ---- vanished anchors
    M("vanish-unsign", CO, "def unsign_from_foolscap(ann_t):", "def unsign_from_foolscap_v2(ann_t):", "ANALYSIS-ERROR"),
    M("vanish-process", CL, "    def _process_announcement(self, ann, key_s):", "    def _process_announcement2(self, ann, key_s):", "ANALYSIS-ERROR"),
]

# ---- C34.8 the rejection path is total on the rejected value
BADSIG = ("            except BadSignature:\n"
          "                self.log(\"bad signature on inbound announcement: %s\" % (ann_t,),\n"
          "                         parent=lp, level=log.WEIRD, umid=\"ZAU15Q\")\n" + CONT)
TAIL = "\n            self._process_announcement(ann, key_s)\n"
HANDLERS = BADSIG + GENERIC + TAIL
MALLOG = ("                self.log(\"malformed inbound announcement: %s\" % (ann_t,),\n"
          "                         parent=lp, level=log.WEIRD, umid=\"gBPmDw\")\n")
TRYHEAD = "            try:\n                # this might raise UnknownKeyError or bad-sig error\n"


def _helper_refactor(render):
    """try/except/else + one _log_rejected helper for both handlers (the seeded refactor); `render` is the slip."""
    return ("            except BadSignature:\n"
            "                self._log_rejected(\"bad signature on\", ann_t, lp, \"ZAU15Q\")\n"
            "            except Exception:\n"
            "                # an unsigned, unknown-key-format or otherwise malformed\n"
            "                # announcement\n"
            "                self._log_rejected(\"malformed\", ann_t, lp, \"gBPmDw\")\n"
            "            else:\n"
            "                self._process_announcement(ann, key_s)\n\n"
            "    def _log_rejected(self, why, ann_t, lp, umid):\n"
            + render +
            "        self.log(\"%s inbound announcement: %s\" % (why, shown),\n"
            "                 parent=lp, level=log.WEIRD, umid=umid)\n")


C348 = [
    # the seeded refactor: helper + try/else, the tuple rendered field by field with ensure_text
    M("rejected-rendered-with-ensure-text-in-helper", CL, HANDLERS,
      _helper_refactor("        shown = \" \".join(ensure_text(field) for field in ann_t)\n"), "C34.8"),
    # the same refactor done faithfully
    M("benign-rejection-log-helper-and-try-else", CL, HANDLERS, _helper_refactor("        shown = ann_t\n"), None),
    M("benign-rejection-log-helper-repr", CL, HANDLERS, _helper_refactor("        shown = repr(ann_t)\n"), None),
    # other edits with the same effect
    M("rejected-key-decoded-for-the-log", CL, MALLOG,
      "                self.log(\"malformed inbound announcement from %s\" % (ann_t[2].decode(\"ascii\"),),\n"
      "                         parent=lp, level=log.WEIRD, umid=\"gBPmDw\")\n", "C34.8"),
    M("rejected-field-count-logged", CL, MALLOG,
      "                self.log(\"malformed inbound announcement (%d fields): %r\" % (len(ann_t), ann_t),\n"
      "                         parent=lp, level=log.WEIRD, umid=\"gBPmDw\")\n", "C34.8"),
    M("rejected-tuple-spread-over-percent", CL, MALLOG,
      "                self.log(\"malformed inbound announcement: %s\" % ann_t,\n"
      "                         parent=lp, level=log.WEIRD, umid=\"gBPmDw\")\n", "C34.8"),
    M("rejected-unpacked-in-handler", CL, MALLOG,
      "                (msg, sig, claimed) = ann_t\n"
      "                self.log(\"malformed inbound announcement claiming key %r\" % (claimed,),\n"
      "                         parent=lp, level=log.WEIRD, umid=\"gBPmDw\")\n", "C34.8"),
    M("announcement-unpacked-in-front-of-the-try", CL, TRYHEAD,
      "            (msg, sig, claimed) = ann_t\n" + TRYHEAD, "C34.8"),
    M("rejected-counted-per-claimed-key", CL, MALLOG,
      MALLOG + "                self._note_rejected(ann_t)\n", "C34.8",
      edits=[(CL, "    def _process_announcement(self, ann, key_s):\n",
              "    def _note_rejected(self, ann_t):\n"
              "        who = ensure_str(ann_t[2] or b\"unsigned\")\n"
              "        self._debug_counts[\"rejected:\" + who] = 1\n\n"
              "    def _process_announcement(self, ann, key_s):\n")]),
    # benign spellings of the log statement
    M("benign-rejected-logged-by-format-kwargs", CL, MALLOG,
      "                self.log(format=\"malformed inbound announcement: %(ann)s\", ann=ann_t,\n"
      "                         parent=lp, level=log.WEIRD, umid=\"gBPmDw\")\n", None),
    M("benign-rejected-logged-by-fstring", CL, MALLOG,
      "                self.log(f\"malformed inbound announcement: {ann_t!r}\",\n"
      "                         parent=lp, level=log.WEIRD, umid=\"gBPmDw\")\n", None),
    M("benign-rejected-repr-concatenated", CL, MALLOG,
      "                shown = repr(ann_t)\n"
      "                self.log(\"malformed inbound announcement: \" + shown,\n"
      "                         parent=lp, level=log.WEIRD, umid=\"gBPmDw\")\n", None),
    M("benign-rejected-rendering-guarded", CL, MALLOG,
      "                try:\n"
      "                    shown = \" \".join(ensure_text(field) for field in ann_t)\n"
      "                except Exception:\n"
      "                    shown = repr(ann_t)\n"
      "                self.log(\"malformed inbound announcement: %s\" % (shown,),\n"
      "                         parent=lp, level=log.WEIRD, umid=\"gBPmDw\")\n", None),
    M("benign-handlers-merged", CL, BADSIG + GENERIC,
      "            except Exception as e:\n"
      "                self.log(\"%s inbound announcement: %s\" % (\"bad signature on\" if isinstance(e, BadSignature) else \"malformed\", ann_t),\n"
      "                         parent=lp, level=log.WEIRD, umid=\"gBPmDw\")\n"
      "                continue\n", None),
]
MUTANTS = MUTANTS + C348
