from .runner import M

F = "src/allmydata/hashtree.py"
LEVELLOOP = "            for level in reversed(range(len(hashes_to_check))):"
WORKLIST = "            hashes_to_check = [set() for level in range(num_levels+1)]\n"
VERIFIER_INIT_END = ("            rows += [[None for i in range(len(last)//2)]]\n        # Flatten the list of rows into a single list.\n"
                     "        rows.reverse()\n        self[:] = sum(rows, [])\n")
HANDLER = ("        except (BadHashError, NotEnoughHashesError, IndexError):\n            for i in remove_upon_failure:\n"
           "                self[i] = None\n            raise\n")
NAME_HASH = "    def _name_hash(self, i):\n"
VERIFIER_NEEDED = "        maybe_needed = set(self.needed_for(self.first_leaf_num + leafnum))\n"


# ---- added after seeded changes C02-I / C35-I (refactors with a slip): set_hashes as overlay-and-commit, and with the
# fill / walk moved into helper methods.  The two faithful refactors are spelled out, the slips are edits of them.
SET_HASHES_REGION = (
    "        remove_upon_failure = set() # we'll remove these if the check fails\n"
    '\n'
    '        # visualize this method in the following way:\n'
    '        #  A: start with the empty or partially-populated tree as shown in\n'
    '        #     the HashTree docstring\n'
    '        #  B: add all of our input hashes to the tree, filling in some of the\n'
    "        #     holes. Don't overwrite anything, but new values must equal the\n"
    '        #     existing ones. Mark everything that was added with a red dot\n'
    '        #     (meaning "not yet validated")\n'
    '        #  C: start with the lowest/deepest level. Pick any red-dotted node,\n'
    '        #     hash it with its sibling to compute the parent hash. Add the\n'
    '        #     parent to the tree just like in step B (if the parent already\n'
    '        #     exists, the values must be equal; if not, add our computed\n'
    '        #     value with a red dot). If we have no sibling, throw\n'
    "        #     NotEnoughHashesError, since we won't be able to validate this\n"
    '        #     node. Remove the red dot. If there was a red dot on our\n'
    '        #     sibling, remove it too.\n'
    '        #  D: finish all red-dotted nodes in one level before moving up to\n'
    '        #     the next.\n'
    '        #  E: if we hit NotEnoughHashesError or BadHashError before getting\n'
    "        #     to the root, discard every hash we've added.\n"
    '\n'
    '        try:\n'
    '            num_levels = depth_of(len(self)-1)\n'
    '            # hashes_to_check[level] is set(index). This holds the "red dots"\n'
    '            # described above\n'
    '            hashes_to_check = [set() for level in range(num_levels+1)]\n'
    '\n'
    '            # first we provisionally add all hashes to the tree, comparing\n'
    '            # any duplicates\n'
    '            for i,h in new_hashes.items():\n'
    '                if self[i]:\n'
    '                    if self[i] != h:\n'
    '                        raise BadHashError("new hash %r does not match "\n'
    '                                           "existing hash %r at %r"\n'
    '                                           % (base32.b2a(h),\n'
    '                                              base32.b2a(self[i]),\n'
    '                                              self._name_hash(i)))\n'
    '                else:\n'
    '                    level = depth_of(i)\n'
    '                    hashes_to_check[level].add(i)\n'
    '                    self[i] = h\n'
    '                    remove_upon_failure.add(i)\n'
    '\n'
    '            for level in reversed(range(len(hashes_to_check))):\n'
    '                this_level = hashes_to_check[level]\n'
    '                while this_level:\n'
    '                    i = this_level.pop()\n'
    '                    if i == 0:\n'
    "                        # The root has no sibling. How lonely. You can't\n"
    '                        # really *check* the root; you either accept it\n'
    '                        # because the caller told you what it is by including\n'
    '                        # it in hashes, or you accept it because you\n'
    '                        # calculated it from its two children. You probably\n'
    '                        # want to set the root (from a trusted source) before\n'
    '                        # adding any children from an untrusted source.\n'
    '                        continue\n'
    '                    siblingnum = self.sibling(i)\n'
    '                    if self[siblingnum] is None:\n'
    "                        # without a sibling, we can't compute a parent, and\n"
    "                        # we can't verify this node\n"
    '                        raise NotEnoughHashesError("unable to validate [%d]"%i)\n'
    '                    parentnum = self.parent(i)\n'
    '                    # make sure we know right from left\n'
    '                    leftnum, rightnum = sorted([i, siblingnum])\n'
    '                    new_parent_hash = pair_hash(self[leftnum], self[rightnum])\n'
    '                    if self[parentnum]:\n'
    '                        if self[parentnum] != new_parent_hash:\n'
    '                            raise BadHashError("h([%d]+[%d]) != h[%d]" %\n'
    '                                               (leftnum, rightnum, parentnum))\n'
    '                    else:\n'
    '                        self[parentnum] = new_parent_hash\n'
    '                        remove_upon_failure.add(parentnum)\n'
    '                        parent_level = depth_of(parentnum)\n'
    '                        assert parent_level == level-1\n'
    '                        hashes_to_check[parent_level].add(parentnum)\n'
    '\n'
    '                    # our sibling is now as valid as this node\n'
    '                    this_level.discard(siblingnum)\n'
    "            # we're done!\n"
    '\n'
    '        except (BadHashError, NotEnoughHashesError, IndexError):\n'
    '            for i in remove_upon_failure:\n'
    '                self[i] = None\n'
    '            raise\n'
)
OV_OK = (
    '        # visualize this method in the following way:\n'
    '        #  A: start with the empty or partially-populated tree as shown in\n'
    '        #     the HashTree docstring\n'
    '        #  B: lay a transparent sheet over the tree and write all of our\n'
    '        #     input hashes on it, each one over its own node. Hashes that I\n'
    '        #     already hold with the same value are not written again. Mark\n'
    '        #     everything on the sheet with a red dot (meaning "not yet\n'
    '        #     validated"). Looking down through the sheet you see the new\n'
    '        #     value where there is one, and my own value everywhere else.\n'
    '        #  C: start with the lowest/deepest level. Pick any red-dotted node,\n'
    '        #     hash it with its sibling to compute the parent hash. If the\n'
    '        #     parent is visible, the values must be equal; if not, write our\n'
    '        #     computed value on the sheet with a red dot. If we have no\n'
    "        #     sibling, throw NotEnoughHashesError, since we won't be able to\n"
    '        #     validate this node. Remove the red dot. If there was a red dot\n'
    '        #     on our sibling, remove it too.\n'
    '        #  D: finish all red-dotted nodes in one level before moving up to\n'
    '        #     the next.\n'
    '        #  E: when no red dots are left, copy the sheet into the tree. If we\n'
    '        #     hit NotEnoughHashesError or BadHashError before that, just\n'
    '        #     throw the sheet away: the tree itself was never touched, so\n'
    '        #     there is nothing to undo.\n'
    '\n'
    '        pending = {} # the sheet: maps hash index to not-yet-committed hash\n'
    '\n'
    '        def visible(i):\n'
    '            if i in pending:\n'
    '                return pending[i]\n'
    '            return self[i]\n'
    '\n'
    '        num_levels = depth_of(len(self)-1)\n'
    '        # hashes_to_check[level] is set(index). This holds the "red dots"\n'
    '        # described above\n'
    '        hashes_to_check = [set() for level in range(num_levels+1)]\n'
    '\n'
    '        # first we put all hashes that tell us something new on the sheet.\n'
    '        # Indexing self[i] also rejects (IndexError) any hash index that does\n'
    '        # not fit into this tree.\n'
    '        for i,h in new_hashes.items():\n'
    '            if self[i]:\n'
    '                if self[i] != h:\n'
    '                    raise BadHashError("new hash %r does not match "\n'
    '                                       "existing hash %r at %r"\n'
    '                                       % (base32.b2a(h),\n'
    '                                          base32.b2a(self[i]),\n'
    '                                          self._name_hash(i)))\n'
    '                continue\n'
    '            pending[i] = h\n'
    '            hashes_to_check[depth_of(i)].add(i)\n'
    '\n'
    "        # The root has no sibling. How lonely. You can't really *check* the\n"
    '        # root; you either accept it because the caller told you what it is\n'
    '        # by including it in hashes, or you accept it because you calculated\n'
    '        # it from its two children. You probably want to set the root (from a\n'
    '        # trusted source) before adding any children from an untrusted\n'
    '        # source. So level 0 is left out here.\n'
    '        for level in range(num_levels, 0, -1):\n'
    '            this_level = hashes_to_check[level]\n'
    '            while this_level:\n'
    '                i = this_level.pop()\n'
    '                siblingnum = self.sibling(i)\n'
    '                if visible(siblingnum) is None:\n'
    "                    # without a sibling, we can't compute a parent, and we\n"
    "                    # can't verify this node\n"
    '                    raise NotEnoughHashesError("unable to validate [%d]"%i)\n'
    '                parentnum = self.parent(i)\n'
    '                # make sure we know right from left\n'
    '                leftnum, rightnum = sorted([i, siblingnum])\n'
    '                new_parent_hash = pair_hash(visible(leftnum),\n'
    '                                            visible(rightnum))\n'
    '                if visible(parentnum):\n'
    '                    if visible(parentnum) != new_parent_hash:\n'
    '                        raise BadHashError("h([%d]+[%d]) != h[%d] at %s" %\n'
    '                                           (leftnum, rightnum, parentnum,\n'
    '                                            self._name_hash(parentnum)))\n'
    '                else:\n'
    '                    pending[parentnum] = new_parent_hash\n'
    '                    parent_level = depth_of(parentnum)\n'
    '                    assert parent_level == level-1\n'
    '                    hashes_to_check[parent_level].add(parentnum)\n'
    '\n'
    '                # our sibling is now as valid as this node\n'
    '                this_level.discard(siblingnum)\n'
    '\n'
    "        # we're done! Everything on the sheet chains up to a hash that I\n"
    '        # already trusted, so it can go into the tree.\n'
    '        for i,h in pending.items():\n'
    '            self[i] = h\n'
)
SET_HASHES_TRY = (
    '            # first we provisionally add all hashes to the tree, comparing\n'
    '            # any duplicates\n'
    '            for i,h in new_hashes.items():\n'
    '                if self[i]:\n'
    '                    if self[i] != h:\n'
    '                        raise BadHashError("new hash %r does not match "\n'
    '                                           "existing hash %r at %r"\n'
    '                                           % (base32.b2a(h),\n'
    '                                              base32.b2a(self[i]),\n'
    '                                              self._name_hash(i)))\n'
    '                else:\n'
    '                    level = depth_of(i)\n'
    '                    hashes_to_check[level].add(i)\n'
    '                    self[i] = h\n'
    '                    remove_upon_failure.add(i)\n'
    '\n'
    '            for level in reversed(range(len(hashes_to_check))):\n'
    '                this_level = hashes_to_check[level]\n'
    '                while this_level:\n'
    '                    i = this_level.pop()\n'
    '                    if i == 0:\n'
    "                        # The root has no sibling. How lonely. You can't\n"
    '                        # really *check* the root; you either accept it\n'
    '                        # because the caller told you what it is by including\n'
    '                        # it in hashes, or you accept it because you\n'
    '                        # calculated it from its two children. You probably\n'
    '                        # want to set the root (from a trusted source) before\n'
    '                        # adding any children from an untrusted source.\n'
    '                        continue\n'
    '                    siblingnum = self.sibling(i)\n'
    '                    if self[siblingnum] is None:\n'
    "                        # without a sibling, we can't compute a parent, and\n"
    "                        # we can't verify this node\n"
    '                        raise NotEnoughHashesError("unable to validate [%d]"%i)\n'
    '                    parentnum = self.parent(i)\n'
    '                    # make sure we know right from left\n'
    '                    leftnum, rightnum = sorted([i, siblingnum])\n'
    '                    new_parent_hash = pair_hash(self[leftnum], self[rightnum])\n'
    '                    if self[parentnum]:\n'
    '                        if self[parentnum] != new_parent_hash:\n'
    '                            raise BadHashError("h([%d]+[%d]) != h[%d]" %\n'
    '                                               (leftnum, rightnum, parentnum))\n'
    '                    else:\n'
    '                        self[parentnum] = new_parent_hash\n'
    '                        remove_upon_failure.add(parentnum)\n'
    '                        parent_level = depth_of(parentnum)\n'
    '                        assert parent_level == level-1\n'
    '                        hashes_to_check[parent_level].add(parentnum)\n'
    '\n'
    '                    # our sibling is now as valid as this node\n'
    '                    this_level.discard(siblingnum)\n'
    "            # we're done!\n"
    '\n'
    '        except (BadHashError, NotEnoughHashesError, IndexError):\n'
    '            for i in remove_upon_failure:\n'
    '                self[i] = None\n'
    '            raise\n'
)
HP_OK = (
    '            self._add_pending(new_hashes, hashes_to_check, remove_upon_failure)\n'
    '            self._check_pending(hashes_to_check, remove_upon_failure)\n'
    '        except (BadHashError, NotEnoughHashesError, IndexError):\n'
    '            for i in remove_upon_failure:\n'
    '                self[i] = None\n'
    '            raise\n'
    '\n'
    '    def _add_pending(self, new_hashes, hashes_to_check, added):\n'
    '        # first we provisionally add all hashes to the tree, comparing\n'
    '        # any duplicates\n'
    '        for i,h in new_hashes.items():\n'
    '            if self[i]:\n'
    '                if self[i] != h:\n'
    '                    raise BadHashError("new hash %r does not match "\n'
    '                                       "existing hash %r at %r"\n'
    '                                       % (base32.b2a(h),\n'
    '                                          base32.b2a(self[i]),\n'
    '                                          self._name_hash(i)))\n'
    '            else:\n'
    '                level = depth_of(i)\n'
    '                hashes_to_check[level].add(i)\n'
    '                self[i] = h\n'
    '                added.add(i)\n'
    '\n'
    '\n'
    '    def _check_pending(self, hashes_to_check, added):\n'
    '        for level in reversed(range(len(hashes_to_check))):\n'
    '            this_level = hashes_to_check[level]\n'
    '            while this_level:\n'
    '                i = this_level.pop()\n'
    '                if i == 0:\n'
    "                    # The root has no sibling. How lonely. You can't\n"
    '                    # really *check* the root; you either accept it\n'
    '                    # because the caller told you what it is by including\n'
    '                    # it in hashes, or you accept it because you\n'
    '                    # calculated it from its two children. You probably\n'
    '                    # want to set the root (from a trusted source) before\n'
    '                    # adding any children from an untrusted source.\n'
    '                    continue\n'
    '                siblingnum = self.sibling(i)\n'
    '                if self[siblingnum] is None:\n'
    "                    # without a sibling, we can't compute a parent, and\n"
    "                    # we can't verify this node\n"
    '                    raise NotEnoughHashesError("unable to validate [%d]"%i)\n'
    '                parentnum = self.parent(i)\n'
    '                # make sure we know right from left\n'
    '                leftnum, rightnum = sorted([i, siblingnum])\n'
    '                new_parent_hash = pair_hash(self[leftnum], self[rightnum])\n'
    '                if self[parentnum]:\n'
    '                    if self[parentnum] != new_parent_hash:\n'
    '                        raise BadHashError("h([%d]+[%d]) != h[%d]" %\n'
    '                                           (leftnum, rightnum, parentnum))\n'
    '                else:\n'
    '                    self[parentnum] = new_parent_hash\n'
    '                    added.add(parentnum)\n'
    '                    parent_level = depth_of(parentnum)\n'
    '                    assert parent_level == level-1\n'
    '                    hashes_to_check[parent_level].add(parentnum)\n'
    '\n'
    '                # our sibling is now as valid as this node\n'
    '                this_level.discard(siblingnum)\n'
    "        # we're done!\n"
    '\n'
)


def _sub(s, old, new):
    assert s.count(old) == 1, old
    return s.replace(old, new)


OV_CONFLICT = (
    '            if self[i]:\n'
    '                if self[i] != h:\n'
    '                    raise BadHashError("new hash %r does not match "\n'
    '                                       "existing hash %r at %r"\n'
    '                                       % (base32.b2a(h),\n'
    '                                          base32.b2a(self[i]),\n'
    '                                          self._name_hash(i)))\n'
    '                continue\n')
OV_COMMIT = "        for i,h in pending.items():\n            self[i] = h\n"
OV_VIEW_DEF = "        def visible(i):\n            if i in pending:\n                return pending[i]\n            return self[i]\n\n"
# the seeded slip: an offered hash that differs from the one held is left to the parent check, which the root does not have
OV_SLIP = _sub(OV_OK, OV_CONFLICT, "            if self[i] == h:\n                continue\n")
# same effect, other edit: only non-root nodes are compared
OV_ROOT_EXEMPT = _sub(OV_OK, "            if self[i]:\n                if self[i] != h:\n", "            if self[i]:\n                if i != 0 and self[i] != h:\n")
OV_COMMIT_EARLY = _sub(OV_OK, OV_COMMIT, OV_COMMIT + "        if self[0] is None:\n            raise NotEnoughHashesError(\"the root hash is still unknown\")\n")
OV_COMMIT_BEFORE_WALK = _sub(_sub(OV_OK, OV_COMMIT, ""), "        # The root has no sibling. How lonely. You can't really *check* the\n",
                             OV_COMMIT + "        # The root has no sibling. How lonely. You can't really *check* the\n")
OV_HELD_TABLE = _sub(OV_OK, "        for i,h in new_hashes.items():\n            if self[i]:\n                if self[i] != h:\n",
                     "        held = dict(enumerate(self))\n        for i,h in new_hashes.items():\n            if held.get(i):\n                if held[i] != h:\n")
OV_SIBLING_DIRECT = _sub(OV_OK, "                if visible(siblingnum) is None:\n", "                if self[siblingnum] is None:\n")
OV_VIEW_GET = _sub(OV_OK, OV_VIEW_DEF, "        def visible(i):\n            return pending.get(i, self[i])\n\n")
OV_VIEW_IFEXP = _sub(OV_OK, OV_VIEW_DEF, "        visible = None\n").replace("visible(siblingnum)", "(pending[siblingnum] if siblingnum in pending else self[siblingnum])") \
    .replace("visible(leftnum)", "pending.get(leftnum, self[leftnum])").replace("visible(rightnum)", "pending.get(rightnum, self[rightnum])") \
    .replace("visible(parentnum)", "(self[parentnum] if parentnum not in pending else pending[parentnum])")
OV_COMMIT_BY_KEY = _sub(OV_OK, OV_COMMIT, "        for i in sorted(pending):\n            self[i] = pending[i]\n")
HP_CALL = "            self._add_pending(new_hashes, hashes_to_check, remove_upon_failure)\n"
# the seeded slip: the helper collects what it stored and hands it back at the end - nothing is journaled when it raises half-way
HP_SLIP = _sub(_sub(_sub(HP_OK, HP_CALL, "            remove_upon_failure.update(self._add_pending(new_hashes, hashes_to_check))\n"),
                    "    def _add_pending(self, new_hashes, hashes_to_check, added):\n",
                    "    def _add_pending(self, new_hashes, hashes_to_check):\n        added = set()\n"),
               "                added.add(i)\n\n\n    def _check_pending(", "                added.add(i)\n        return added\n\n    def _check_pending(")
HP_PARENT_UNJOURNALED = _sub(HP_OK, "                    added.add(parentnum)\n", "")
HP_KEYWORD_CALL = _sub(HP_OK, HP_CALL, "            self._add_pending(new_hashes, added=remove_upon_failure, hashes_to_check=hashes_to_check)\n")

# the helper split as in seeded C35-I (work lists built inside _check_pending from the journal), done faithfully
HP2_OK = (
    "        remove_upon_failure = set() # we'll remove these if the check fails\n"
    '\n'
    '        # visualize this method in the following way:\n'
    '        #  A: start with the empty or partially-populated tree as shown in\n'
    '        #     the HashTree docstring\n'
    '        #  B: add all of our input hashes to the tree, filling in some of the\n'
    "        #     holes. Don't overwrite anything, but new values must equal the\n"
    '        #     existing ones. Mark everything that was added with a red dot\n'
    '        #     (meaning "not yet validated")\n'
    '        #  C: start with the lowest/deepest level. Pick any red-dotted node,\n'
    '        #     hash it with its sibling to compute the parent hash. Add the\n'
    '        #     parent to the tree just like in step B (if the parent already\n'
    '        #     exists, the values must be equal; if not, add our computed\n'
    '        #     value with a red dot). If we have no sibling, throw\n'
    "        #     NotEnoughHashesError, since we won't be able to validate this\n"
    '        #     node. Remove the red dot. If there was a red dot on our\n'
    '        #     sibling, remove it too.\n'
    '        #  D: finish all red-dotted nodes in one level before moving up to\n'
    '        #     the next.\n'
    '        #  E: if we hit NotEnoughHashesError or BadHashError before getting\n'
    "        #     to the root, discard every hash we've added.\n"
    '\n'
    '        try:\n'
    '            # step B: provisionally add all hashes to the tree, comparing\n'
    '            # any duplicates\n'
    '            self._add_pending(new_hashes, remove_upon_failure)\n'
    '            # steps C+D: walk the red dots up towards the root\n'
    '            self._check_pending(remove_upon_failure)\n'
    "            # we're done!\n"
    '\n'
    '        except (BadHashError, NotEnoughHashesError, IndexError):\n'
    '            # step E\n'
    '            for i in remove_upon_failure:\n'
    '                self[i] = None\n'
    '            raise\n'
    '\n'
    '    def _add_pending(self, new_hashes, pending):\n'
    '        """Provisionally store every hash in new_hashes that I do not already\n'
    '        have, and return the set of indices that I filled in (the "red dots"\n'
    '        of set_hashes(): stored, but not yet validated). A hash that I already\n'
    '        have must equal the existing one, else I raise BadHashError."""\n'
    '        for i,h in new_hashes.items():\n'
    '            if self[i]:\n'
    '                if self[i] != h:\n'
    '                    raise BadHashError("new hash %r does not match "\n'
    '                                       "existing hash %r at %r"\n'
    '                                       % (base32.b2a(h),\n'
    '                                          base32.b2a(self[i]),\n'
    '                                          self._name_hash(i)))\n'
    '            else:\n'
    '                self[i] = h\n'
    '                pending.add(i)\n'
    '\n'
    '    def _check_pending(self, pending):\n'
    '        """Validate the provisionally-stored hashes in \'pending\' against\n'
    '        their siblings and parents, deepest level first. Any parent hash that\n'
    "        I have to compute (and store) along the way is added to 'pending', so\n"
    '        that the caller knows what to forget if I raise BadHashError or\n'
    '        NotEnoughHashesError."""\n'
    '        num_levels = depth_of(len(self)-1)\n'
    '        # hashes_to_check[level] is set(index). This holds the "red dots"\n'
    '        # described in set_hashes()\n'
    '        hashes_to_check = [set() for level in range(num_levels+1)]\n'
    '        for i in pending:\n'
    '            hashes_to_check[depth_of(i)].add(i)\n'
    '\n'
    '        for level in reversed(range(len(hashes_to_check))):\n'
    '            this_level = hashes_to_check[level]\n'
    '            while this_level:\n'
    '                i = this_level.pop()\n'
    '                if i == 0:\n'
    "                    # The root has no sibling. How lonely. You can't\n"
    '                    # really *check* the root; you either accept it\n'
    '                    # because the caller told you what it is by including\n'
    '                    # it in hashes, or you accept it because you\n'
    '                    # calculated it from its two children. You probably\n'
    '                    # want to set the root (from a trusted source) before\n'
    '                    # adding any children from an untrusted source.\n'
    '                    continue\n'
    '                siblingnum = self.sibling(i)\n'
    '                if self[siblingnum] is None:\n'
    "                    # without a sibling, we can't compute a parent, and\n"
    "                    # we can't verify this node\n"
    '                    raise NotEnoughHashesError("unable to validate [%d]"%i)\n'
    '                parentnum = self.parent(i)\n'
    '                # make sure we know right from left\n'
    '                leftnum, rightnum = sorted([i, siblingnum])\n'
    '                new_parent_hash = pair_hash(self[leftnum], self[rightnum])\n'
    '                if self[parentnum]:\n'
    '                    if self[parentnum] != new_parent_hash:\n'
    '                        raise BadHashError("h([%d]+[%d]) != h[%d]" %\n'
    '                                           (leftnum, rightnum, parentnum))\n'
    '                else:\n'
    '                    self[parentnum] = new_parent_hash\n'
    '                    pending.add(parentnum)\n'
    '                    parent_level = depth_of(parentnum)\n'
    '                    assert parent_level == level-1\n'
    '                    hashes_to_check[parent_level].add(parentnum)\n'
    '\n'
    '                # our sibling is now as valid as this node\n'
    '                this_level.discard(siblingnum)\n'
)
HP2_SLIP = _sub(_sub(_sub(_sub(HP2_OK, "self._add_pending(new_hashes, remove_upon_failure)", "remove_upon_failure.update(self._add_pending(new_hashes))"),
                         "def _add_pending(self, new_hashes, pending):", "def _add_pending(self, new_hashes):"),
                    "                self[i] = h\n                pending.add(i)\n", "                self[i] = h\n                pending.add(i)\n        return pending\n"),
               "        for i,h in new_hashes.items():\n            if self[i]:\n", "        pending = set()\n        for i,h in new_hashes.items():\n            if self[i]:\n")
HP2_NOT_FILED = _sub(HP2_OK, "        for i in pending:\n            hashes_to_check[depth_of(i)].add(i)\n", "")

MUTANTS = [
    M("journal-add-dropped-leafloop", F,
      "                    self[i] = h\n                    remove_upon_failure.add(i)\n",
      "                    self[i] = h\n", "C35.1"),
    M("journal-add-dropped-parent", F,
      "                        self[parentnum] = new_parent_hash\n                        remove_upon_failure.add(parentnum)\n",
      "                        self[parentnum] = new_parent_hash\n", "C35.1"),
    M("journal-wrong-index", F,
      "                        remove_upon_failure.add(parentnum)\n", "                        remove_upon_failure.add(i)\n", "C35.1"),
    M("handler-catches-only-badhash", F,
      "        except (BadHashError, NotEnoughHashesError, IndexError):\n            for i in remove_upon_failure:",
      "        except BadHashError:\n            for i in remove_upon_failure:", "C35.2"),
    M("handler-swallows", F,
      "            for i in remove_upon_failure:\n                self[i] = None\n            raise\n",
      "            for i in remove_upon_failure:\n                self[i] = None\n            return\n", "C35.2"),
    M("conflict-check-dropped", F,
      "                if self[i]:\n                    if self[i] != h:",
      "                if self[i]:\n                    if False:", "C35.3"),
    M("overwrite-known-node", F,
      "                if self[i]:\n                    if self[i] != h:\n",
      "                if False:\n                    if self[i] != h:\n", "C35.3"),
    M("parent-mismatch-ignored", F,
      "                        if self[parentnum] != new_parent_hash:\n                            raise BadHashError(",
      "                        if self[parentnum] != new_parent_hash:\n                            pass\n                        if False:\n                            raise BadHashError(", "C35.3"),
    M("enqueue-dropped", F,
      "                        hashes_to_check[parent_level].add(parentnum)\n", "                        pass\n", "C35.4"),
    M("missing-sibling-tolerated", F,
      "                        raise NotEnoughHashesError(\"unable to validate [%d]\"%i)\n",
      "                        continue\n", "C35.4"),
    M("pair-not-sorted", F,
      "                    leftnum, rightnum = sorted([i, siblingnum])\n", "                    leftnum, rightnum = i, siblingnum\n", "C35.4"),
    M("skip-level-one", F,
      "                    if i == 0:\n", "                    if i <= 2:\n", "C35.4"),
    M("top-down", F,
      "            for level in reversed(range(len(hashes_to_check))):", "            for level in range(len(hashes_to_check)):", "C35.4"),
    M("parent-index-wrong", F, "        return (i - 1) // 2", "        return i // 2", "C35.5"),
    M("sibling-same-child", F,
      "        if self.lchild(parent) == i:\n            return self.rchild(parent)",
      "        if self.lchild(parent) == i:\n            return self.lchild(parent)", "C35.5"),
    M("needed-for-stops-early", F, "        while here != 0:\n            needed.append", "        while here > 2:\n            needed.append", "C35.5"),
    M("pad-constant", F, "            L[i] = empty_leaf_hash(i)", "            L[i] = empty_leaf_hash(0)", "C35.6"),
    M("leaf-index-off", F, "            hashnum = self.first_leaf_num + leafnum\n", "            hashnum = self.first_leaf_num + leafnum + 1\n", "C35.6"),
    M("pair-hash-swapped", F, "    return tagged_pair_hash(b'Merkle tree internal node', a, b)",
      "    return tagged_pair_hash(b'Merkle tree internal node', b, a)", "C35.6"),
    M("benign-is-none", F, "                if self[i]:\n                    if self[i] != h:",
      "                if self[i] is not None:\n                    if not (self[i] == h):", None),
    M("benign-hoist-parent", F,
      "                    parentnum = self.parent(i)\n", "                    p_ = self.parent(i)\n                    parentnum = p_\n", None),
    M("benign-sorted-pair-tmp", F,
      "                    leftnum, rightnum = sorted([i, siblingnum])\n",
      "                    pair = sorted([i, siblingnum])\n                    leftnum, rightnum = pair\n", None),
    M("initial-enqueue-dropped", F, "                    hashes_to_check[level].add(i)\n                    self[i] = h\n",
      "                    self[i] = h\n", "C35.4"),
    M("work-loop-negated", F, "                while this_level:\n", "                while not this_level:\n", "C35.4"),
    M("needed-for-loop-negated", F, "        while here != 0:\n            needed.append", "        while here == 0:\n            needed.append", "C35.5"),
    M("writer-first-leaf-off", F, "        end   = roundup_pow2(len(L))\n        self.first_leaf_num = end - 1\n        L     = L + [None] * (end - start)\n        for i in range(start, end):",
      "        end   = roundup_pow2(len(L))\n        self.first_leaf_num = end\n        L     = L + [None] * (end - start)\n        for i in range(start, end):", "C35.7"),
    M("verifier-rows-not-reversed", F, "            rows += [[None for i in range(len(last)//2)]]\n        # Flatten the list of rows into a single list.\n        rows.reverse()\n",
      "            rows += [[None for i in range(len(last)//2)]]\n        # Flatten the list of rows into a single list.\n", "C35.7"),
    M("needed-hashes-returns-known", F, "        return set([i for i in maybe_needed if self[i] is None])", "        return set([i for i in maybe_needed if self[i] is not None])", "C35.7"),
    M("benign-work-loop-len", F, "                while this_level:\n", "                while len(this_level) > 0:\n", None),
    # ---- added after seeded changes C35-A and C02-A
    M("journal-add-deindented", F, "                    self[i] = h\n                    remove_upon_failure.add(i)\n",
      "                    self[i] = h\n                remove_upon_failure.add(i)\n", "C35.1"),
    M("level-one-skipped", F, "            for level in reversed(range(len(hashes_to_check))):", "            for level in range(num_levels, 1, -1):", "C35.4"),
    M("benign-descending-range", F, "            for level in reversed(range(len(hashes_to_check))):", "            for level in range(num_levels, 0, -1):", None),
    # ---- added after the mutation sweep (gap review)
    M("hashes-default-inverted", F, "        if hashes is None:\n            hashes = {}\n",
      "        if hashes is not None:\n            hashes = {}\n", "C35.8"),
    M("leaves-default-negated", F, "        if leaves is None:\n            leaves = {}\n",
      "        if not (leaves is None):\n            leaves = {}\n", "C35.8"),
    M("hashes-discarded-always", F, "        if hashes is None:\n            hashes = {}\n",
      "        hashes = {}\n", "C35.8"),
    M("merged-map-not-from-hashes", F, "        new_hashes = hashes.copy()\n", "        new_hashes = {}\n", "C35.8"),
    M("arg-conflict-polarity-flipped", F, "                if new_hashes[hashnum] != leafhash:\n",
      "                if new_hashes[hashnum] == leafhash:\n", "C35.8"),
    M("arg-conflict-polarity-negated", F, "                if new_hashes[hashnum] != leafhash:\n",
      "                if not (new_hashes[hashnum] != leafhash):\n", "C35.8"),
    M("benign-default-falsy", F, "        if hashes is None:\n            hashes = {}\n",
      "        if not hashes:\n            hashes = {}\n", None),
    M("benign-default-else", F, "        if leaves is None:\n            leaves = {}\n",
      "        if leaves is not None:\n            pass\n        else:\n            leaves = {}\n", None),
    M("benign-merged-dict-copy", F, "        new_hashes = hashes.copy()\n", "        new_hashes = dict(hashes)\n", None),
    M("benign-arg-conflict-eq-else", F,
      "                if new_hashes[hashnum] != leafhash:\n                    raise BadHashError(\"got conflicting hashes in my \"\n",
      "                if new_hashes[hashnum] == leafhash:\n                    pass\n                else:\n                    raise BadHashError(\"got conflicting hashes in my \"\n", None),
    M("benign-range-check-badhash", F, "            for i,h in new_hashes.items():\n                if self[i]:\n",
      "            for i,h in new_hashes.items():\n                if not (0 <= i < len(self)):\n                    raise BadHashError(\"hash index out of range\")\n                if self[i]:\n", None),
    M("writer-row-loop-negated", F,
      "        rows = [L]\n        while len(rows[-1]) != 1:\n            last = rows[-1]\n            rows += [[pair_hash(",
      "        rows = [L]\n        while not (len(rows[-1]) != 1):\n            last = rows[-1]\n            rows += [[pair_hash(", "C35.7"),
    M("verifier-row-loop-inverted", F,
      "        rows = [L]\n        while len(rows[-1]) != 1:\n            last = rows[-1]\n            rows += [[None for",
      "        rows = [L]\n        while len(rows[-1]) == 1:\n            last = rows[-1]\n            rows += [[None for", "C35.7"),
    M("verifier-row-loop-stops-at-two", F,
      "        rows = [L]\n        while len(rows[-1]) != 1:\n            last = rows[-1]\n            rows += [[None for",
      "        rows = [L]\n        while len(rows[-1]) > 2:\n            last = rows[-1]\n            rows += [[None for", "C35.7"),
    M("benign-row-loop-gt", F,
      "        rows = [L]\n        while len(rows[-1]) != 1:\n            last = rows[-1]\n            rows += [[None for",
      "        rows = [L]\n        while len(rows[-1]) > 1:\n            last = rows[-1]\n            rows += [[None for", None),
    M("benign-row-loop-break", F,
      "        rows = [L]\n        while len(rows[-1]) != 1:\n            last = rows[-1]\n            rows += [[pair_hash(",
      "        rows = [L]\n        while True:\n            if len(rows[-1]) == 1:\n                break\n            last = rows[-1]\n            rows += [[pair_hash(", None),
    M("benign-row-append", F,
      "            rows += [[None for i in range(len(last)//2)]]\n",
      "            rows.append([None for i in range(len(last)//2)])\n", None),
    M("needed-for-returns-none", F, "            here = self.parent(here)\n        return needed\n",
      "            here = self.parent(here)\n        return None\n", "C35.5"),
    M("benign-needed-for-returns-copy", F, "            here = self.parent(here)\n        return needed\n",
      "            here = self.parent(here)\n        chain = list(needed)\n        return chain\n", None),
    # rollback must cover a rejection by IndexError (indices come from the offer).  Before the fix: commit in /repo C35.9 was a
    # finding; these two variants repair it in the two possible ways and must be silent.
    M("benign-handler-covers-indexerror", F, "        except (BadHashError, NotEnoughHashesError, IndexError):\n            for i in remove_upon_failure:",
      "        except (IndexError, BadHashError, NotEnoughHashesError):\n            for i in remove_upon_failure:", None),
    M("benign-handler-bare-except", F, "        except (BadHashError, NotEnoughHashesError, IndexError):\n            for i in remove_upon_failure:",
      "        except:\n            for i in remove_upon_failure:", None),
    # active once the handler covers IndexError (skipped on a tree where it does not: the anchor is absent)
    M("handler-drops-indexerror", F, "        except (BadHashError, NotEnoughHashesError, IndexError):\n            for i in remove_upon_failure:",
      "        except (BadHashError, NotEnoughHashesError):\n            for i in remove_upon_failure:", "C35.9"),
    M("handler-keyerror-instead-of-indexerror", F, "        except (BadHashError, NotEnoughHashesError, IndexError):\n            for i in remove_upon_failure:",
      "        except (BadHashError, NotEnoughHashesError, KeyError):\n            for i in remove_upon_failure:", "C35.9"),
    M("benign-handler-lookuperror", F, "        except (BadHashError, NotEnoughHashesError, IndexError):\n            for i in remove_upon_failure:",
      "        except (BadHashError, NotEnoughHashesError, LookupError):\n            for i in remove_upon_failure:", None),
    # ---- added after seeded change C35-E: every level that receives an entry during the walk is visited
    M("levels-snapshot-of-defaultdict-keys", F, LEVELLOOP, "            for level in sorted(hashes_to_check, reverse=True):", "C35.4",
      edits=[(F, WORKLIST, "            hashes_to_check = defaultdict(set)\n"),
             (F, "from allmydata.util import mathutil # from the pyutil library\n",
              "from collections import defaultdict\nfrom allmydata.util import mathutil # from the pyutil library\n")]),
    M("levels-snapshot-of-nonempty-levels", F, LEVELLOOP,
      "            pending = [l for l in reversed(range(len(hashes_to_check))) if hashes_to_check[l]]\n"
      "            for level in pending:", "C35.4"),
    M("levels-snapshot-filter-builtin", F, LEVELLOOP,
      "            for level in filter(lambda l: hashes_to_check[l], reversed(range(len(hashes_to_check)))):", "C35.4"),
    M("levels-counted-from-sparse-dict", F, LEVELLOOP, "            for level in reversed(range(len(hashes_to_check))):", "C35.4",
      edits=[(F, WORKLIST, "            hashes_to_check = defaultdict(set)\n"),
             (F, "from allmydata.util import mathutil # from the pyutil library\n",
              "from collections import defaultdict\nfrom allmydata.util import mathutil # from the pyutil library\n")]),
    M("levels-defaultdict-deepest-level-missed", F, LEVELLOOP, "            for level in range(num_levels - 1, 0, -1):", "C35.4",
      edits=[(F, WORKLIST, "            hashes_to_check = defaultdict(set)\n"),
             (F, "from allmydata.util import mathutil # from the pyutil library\n",
              "from collections import defaultdict\nfrom allmydata.util import mathutil # from the pyutil library\n")]),
    M("benign-levels-defaultdict-explicit-range", F, LEVELLOOP, "            for level in range(num_levels, 0, -1):", None,
      edits=[(F, WORKLIST, "            hashes_to_check = defaultdict(set)\n"),
             (F, "from allmydata.util import mathutil # from the pyutil library\n",
              "from collections import defaultdict\nfrom allmydata.util import mathutil # from the pyutil library\n")]),
    M("benign-levels-dense-dict-sorted-keys", F, LEVELLOOP, "            for level in sorted(hashes_to_check, reverse=True):", None,
      edits=[(F, WORKLIST, "            hashes_to_check = {level: set() for level in range(num_levels+1)}\n")]),
    M("benign-levels-hoisted", F, LEVELLOOP,
      "            levels = list(range(len(hashes_to_check)))\n            for level in reversed(levels):", None),
    M("benign-levels-sorted-range", F, LEVELLOOP, "            for level in sorted(range(len(hashes_to_check)), reverse=True):", None),
    M("benign-level-set-copied", F, "                this_level = hashes_to_check[level]\n",
      "                this_level = set(hashes_to_check[level])\n", None),
    # ---- added after seeded change C35-H: nothing but journaled tree slots outlives a rejected call (C35.10), and only the
    # constructors and set_hashes write what set_hashes validates against (C35.11)
    M("work-lists-allocated-once-in-init", F, WORKLIST,
      "            hashes_to_check = self._hashes_to_check\n            assert len(hashes_to_check) == num_levels+1\n", "C35.10",
      edits=[(F, VERIFIER_INIT_END, VERIFIER_INIT_END + "        self._hashes_to_check = [set() for level in range(len(rows))]\n")]),
    M("work-lists-module-cache", F, WORKLIST,
      "            hashes_to_check = _WORK_LISTS.setdefault(num_levels, [set() for level in range(num_levels+1)])\n", "C35.10",
      edits=[(F, "BLOCK_SIZE     = 65536\n", "BLOCK_SIZE     = 65536\n_WORK_LISTS = {}\n")]),
    M("work-lists-lazy-attribute", F, WORKLIST,
      "            if not hasattr(self, \"_work\"):\n                self._work = [set() for level in range(num_levels+1)]\n"
      "            hashes_to_check = self._work\n", "C35.10"),
    M("work-lists-shared-default-argument", F, WORKLIST,
      "            hashes_to_check = _levels.setdefault(num_levels, [set() for level in range(num_levels+1)])\n", "C35.10",
      edits=[(F, "    def set_hashes(self, hashes=None, leaves=None):\n        \"\"\"Add a bunch",
              "    def set_hashes(self, hashes=None, leaves=None, _levels={}):\n        \"\"\"Add a bunch")]),
    M("journal-kept-on-instance", F, "        remove_upon_failure = set() # we'll remove these if the check fails\n",
      "        remove_upon_failure = self.__dict__.setdefault(\"_provisional\", set())\n", "C35.10"),
    M("pending-nodes-recorded-by-helper", F, "                    hashes_to_check[level].add(i)\n                    self[i] = h\n",
      "                    hashes_to_check[level].add(i)\n                    self._note_pending(i)\n                    self[i] = h\n", "C35.10",
      edits=[(F, NAME_HASH, "    def _note_pending(self, i):\n        self._pending.add(i)\n\n" + NAME_HASH),
             (F, VERIFIER_INIT_END, VERIFIER_INIT_END + "        self._pending = set()\n")]),
    M("benign-work-lists-attribute-recreated-per-call", F, WORKLIST,
      "            self._work = [set() for level in range(num_levels+1)]\n            hashes_to_check = self._work\n", None),
    M("benign-success-only-bookkeeping", F, HANDLER,
      HANDLER + "        self._accepted_offers = getattr(self, \"_accepted_offers\", 0) + 1\n", None),
    M("benign-work-lists-from-helper", F, WORKLIST, "            hashes_to_check = _level_sets(num_levels)\n", None,
      edits=[(F, "def depth_of(i):\n",
              "def _level_sets(num_levels):\n    return [set() for level in range(num_levels+1)]\n\ndef depth_of(i):\n")]),
    M("benign-work-lists-copied-from-template", F, WORKLIST,
      "            hashes_to_check = [set(s) for s in self._no_levels]\n", None,
      edits=[(F, VERIFIER_INIT_END, VERIFIER_INIT_END + "        self._no_levels = tuple(frozenset() for level in range(len(rows)))\n")]),
    M("unchecked-leaf-setter", F, NAME_HASH,
      "    def set_leaf_hash(self, leafnum, leafhash):\n        self[self.first_leaf_num + leafnum] = leafhash\n\n" + NAME_HASH, "C35.11"),
    M("needed-hashes-grows-tree", F, VERIFIER_NEEDED,
      "        while len(self) <= self.first_leaf_num + leafnum:\n            self.append(None)\n" + VERIFIER_NEEDED, "C35.11"),
    M("first-leaf-num-rebased-from-outside", F, "def depth_of(i):\n",
      "def rebase(tree, num_leaves):\n    tree.first_leaf_num = roundup_pow2(num_leaves) - 1\n\ndef depth_of(i):\n", "C35.11"),
    M("forget-helper-called-by-needed-hashes", F, VERIFIER_NEEDED,
      "        self._drop_padding()\n" + VERIFIER_NEEDED, "C35.11",
      edits=[(F, NAME_HASH, "    def _drop_padding(self):\n        for i in range(self.first_leaf_num, len(self)):\n"
              "            if self[i] == b\"\":\n                self[i] = None\n\n" + NAME_HASH)]),
    M("benign-leaf-setter-through-set-hashes", F, NAME_HASH,
      "    def set_leaf_hash(self, leafnum, leafhash):\n        self.set_hashes(leaves={leafnum: leafhash})\n\n" + NAME_HASH, None),
    M("benign-needed-hashes-statistics", F, VERIFIER_NEEDED,
      "        self._asked = getattr(self, \"_asked\", 0) + 1\n" + VERIFIER_NEEDED, None),
    # ---- seeded C02-I / C35-I: overlay-and-commit, helper methods
    M("benign-overlay-and-commit", F, SET_HASHES_REGION, OV_OK, None),
    M("benign-overlay-view-get", F, SET_HASHES_REGION, OV_VIEW_GET, None),
    M("benign-overlay-view-inline", F, SET_HASHES_REGION, OV_VIEW_IFEXP, None),
    M("benign-overlay-commit-by-key", F, SET_HASHES_REGION, OV_COMMIT_BY_KEY, None),
    M("overlay-conflict-left-to-parent-check", F, SET_HASHES_REGION, OV_SLIP, "C35.3"),
    M("overlay-root-exempt-from-conflict-check", F, SET_HASHES_REGION, OV_ROOT_EXEMPT, "C35.3"),
    M("overlay-committed-before-last-rejection", F, SET_HASHES_REGION, OV_COMMIT_EARLY, "C35.1"),
    M("overlay-committed-before-walk", F, SET_HASHES_REGION, OV_COMMIT_BEFORE_WALK, "C35.1"),
    M("overlay-keys-never-checked-against-tree-size", F, SET_HASHES_REGION, OV_HELD_TABLE, "C35.9"),
    M("overlay-sibling-read-past-the-overlay", F, SET_HASHES_REGION, OV_SIBLING_DIRECT, "C35.4"),
    M("benign-helpers-journal-passed-in", F, SET_HASHES_TRY, HP_OK, None),
    M("benign-helpers-keyword-call", F, SET_HASHES_TRY, HP_KEYWORD_CALL, None),
    M("helper-returns-journal-entries-at-the-end", F, SET_HASHES_TRY, HP_SLIP, "C35.1"),
    M("helper-parent-store-unjournaled", F, SET_HASHES_TRY, HP_PARENT_UNJOURNALED, "C35.1"),
    M("rollback-loop-removed", F, HANDLER, "        except (BadHashError, NotEnoughHashesError, IndexError):\n            raise\n", "C35.1"),
    M("benign-fill-loop-continue", F, "                                              self._name_hash(i)))\n                else:\n                    level = depth_of(i)\n                    hashes_to_check[level].add(i)\n                    self[i] = h\n                    remove_upon_failure.add(i)\n",
      "                                              self._name_hash(i)))\n                    continue\n                level = depth_of(i)\n                hashes_to_check[level].add(i)\n                self[i] = h\n                remove_upon_failure.add(i)\n", None),
    M("benign-helpers-work-lists-from-journal", F, SET_HASHES_REGION, HP2_OK, None),
    M("helper-fills-journal-from-return-value", F, SET_HASHES_REGION, HP2_SLIP, "C35.1"),
    M("helper-offered-hashes-never-filed", F, SET_HASHES_REGION, HP2_NOT_FILED, "C35.4"),
    M("benign-parent-store-renamed-value", F, "                        self[parentnum] = new_parent_hash\n",
      "                        computed = new_parent_hash\n                        self[parentnum] = computed\n", None),
    M("benign-parent-hash-hoisted-then-copied", F, "                    new_parent_hash = pair_hash(self[leftnum], self[rightnum])\n",
      "                    both = pair_hash(self[leftnum], self[rightnum])\n                    new_parent_hash = both\n", None),
    M("benign-conflict-equal-first", F, "                if self[i]:\n                    if self[i] != h:\n                        raise BadHashError(\"new hash %r does not match \"\n",
      "                if self[i] == h:\n                    continue\n                if self[i]:\n                    if self[i] != h:\n                        raise BadHashError(\"new hash %r does not match \"\n", None),
    M("vanish-set-hashes", F, "    def set_hashes(self, hashes=None, leaves=None):", "    def set_hashes2(self, hashes=None, leaves=None):", "ANALYSIS-ERROR"),
]
