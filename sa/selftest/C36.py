from .runner import M

CODEC = "src/allmydata/codec.py"
NODE = "src/allmydata/immutable/downloader/node.py"
ENC = "src/allmydata/immutable/encode.py"
PUB = "src/allmydata/mutable/publish.py"
RET = "src/allmydata/mutable/retrieve.py"

DECODE_TAIL = ("        return await defer_to_thread(\n            self.decoder.decode,\n            some_shares,\n"
               "            [int(s) for s in their_shareids]\n        )\n")

DEC_CTOR = "        self.decoder = zfec.Decoder(self.required_shares, self.max_shares)"
ENC_CTOR = "        self.encoder = zfec.Encoder(required_shares, max_shares)"

MUTANTS = [
    # ---- C36.1
    M("encoder-ctor-swapped", CODEC, "        self.encoder = zfec.Encoder(required_shares, max_shares)",
      "        self.encoder = zfec.Encoder(max_shares, required_shares)", "C36.1"),
    M("decoder-ctor-swapped", CODEC, "        self.decoder = zfec.Decoder(self.required_shares, self.max_shares)",
      "        self.decoder = zfec.Decoder(self.max_shares, self.required_shares)", "C36.1"),
    M("decoder-attrs-crossed", CODEC,
      "        self.required_shares = required_shares\n        self.max_shares = max_shares\n\n        self.chunk_size",
      "        self.required_shares = max_shares\n        self.max_shares = required_shares\n\n        self.chunk_size", "C36.1"),
    M("decoder-signature-reordered", CODEC,
      "class CRSDecoder:\n\n    def set_params(self, data_size, required_shares, max_shares):",
      "class CRSDecoder:\n\n    def set_params(self, data_size, max_shares, required_shares):", "C36.1"),
    # ---- C36.2
    M("decoder-block-size-floor", CODEC,
      "        self.num_chunks = mathutil.div_ceil(self.data_size, self.chunk_size)", "        self.num_chunks = self.data_size // self.chunk_size",
      "C36.2"),
    M("encoder-block-size-floor", CODEC,
      "        self.share_size = mathutil.div_ceil(data_size, required_shares)", "        self.share_size = data_size // required_shares", "C36.2"),
    M("decoder-chunk-is-n", CODEC, "        self.chunk_size = self.required_shares", "        self.chunk_size = self.max_shares", "C36.2"),
    M("benign-decoder-direct-formula", CODEC,
      "        self.chunk_size = self.required_shares\n        self.num_chunks = mathutil.div_ceil(self.data_size, self.chunk_size)\n        self.share_size = self.num_chunks\n",
      "        self.share_size = mathutil.div_ceil(data_size, required_shares)\n", None),
    # ---- C36.3
    M("decode-ids-sorted", CODEC, "            [int(s) for s in their_shareids]", "            [int(s) for s in sorted(their_shareids)]", "C36.3"),
    M("decode-args-swapped", CODEC,
      "            some_shares,\n            [int(s) for s in their_shareids]\n", "            [int(s) for s in their_shareids],\n            some_shares\n", "C36.3"),
    M("decode-k-precondition-dropped", CODEC,
      "        precondition(len(some_shares) == self.required_shares,\n                     len(some_shares), self.required_shares)\n", "", "C36.3"),
    M("decode-k-precondition-weakened", CODEC,
      "        precondition(len(some_shares) == self.required_shares,", "        precondition(len(some_shares) >= self.required_shares,", "C36.3"),
    M("decode-result-kept-on-instance", CODEC, DECODE_TAIL,
      "        self._segment = await defer_to_thread(self.decoder.decode, some_shares, [int(s) for s in their_shareids])\n"
      "        return self._segment\n", "C36.3"),
    M("benign-decode-hoisted-ids", CODEC,
      "        return await defer_to_thread(\n            self.decoder.decode,\n            some_shares,\n            [int(s) for s in their_shareids]\n        )",
      "        ids = [int(s) for s in their_shareids]\n        return await defer_to_thread(self.decoder.decode, some_shares, ids)", None),
    # ---- C36.4
    M("encode-length-check-dropped", CODEC,
      "        for inshare in inshares:\n            assert len(inshare) == self.share_size, (len(inshare), self.share_size, self.data_size, self.required_shares)\n",
      "", "C36.4"),
    M("encode-checks-first-piece-only", CODEC,
      "        for inshare in inshares:\n            assert len(inshare) == self.share_size, (len(inshare), self.share_size, self.data_size, self.required_shares)\n",
      "        for inshare in inshares:\n            assert len(inshare) == self.share_size, (len(inshare), self.share_size, self.data_size, self.required_shares)\n            break\n",
      "C36.4"),
    M("encode-default-ids-primary-only", CODEC,
      "            desired_share_ids = list(range(self.max_shares))", "            desired_share_ids = list(range(self.required_shares))", "C36.4"),
    M("encode-returns-other-ids", CODEC,
      "        return (shares, desired_share_ids)", "        return (shares, list(range(len(shares))))", "C36.4"),
    M("encode-returns-ids-kept-on-instance", CODEC,
      "        shares = await defer_to_thread(self.encoder.encode, inshares, desired_share_ids)\n        return (shares, desired_share_ids)",
      "        self._last_ids = desired_share_ids\n"
      "        shares = await defer_to_thread(self.encoder.encode, inshares, desired_share_ids)\n        return (shares, self._last_ids)",
      "C36.4"),
    M("benign-encode-rename-loop-var", CODEC,
      "        for inshare in inshares:\n            assert len(inshare) == self.share_size, (len(inshare), self.share_size, self.data_size, self.required_shares)\n",
      "        for piece in inshares:\n            assert self.share_size == len(piece), (len(piece), self.share_size)\n", None),
    # ---- C36.5
    M("imm-decode-args-swapped", NODE, "        d = codec.decode(shares, shareids)   # segment", "        d = codec.decode(shareids, shares)   # segment", "C36.5"),
    M("imm-ids-sorted-alone", NODE, "        del blocks\n", "        del blocks\n        shareids = sorted(shareids)\n", "C36.5"),
    M("imm-ids-sorted-in-place", NODE, "        del blocks\n", "        del blocks\n        shareids.sort()\n", "C36.5"),
    M("imm-append-conditional", NODE,
      "            shareids.append(shareid)\n            shares.append(share)\n",
      "            if shareid not in shareids:\n                shareids.append(shareid)\n            shares.append(share)\n", "C36.5"),
    M("mut-only-ids-truncated", RET, "        shares = shares[:self._required_shares]\n", "", "C36.5"),
    M("imm-chunks-n-not-k", ENC, "        d = self._gather_data(self.required_shares, input_piece_size,", "        d = self._gather_data(self.num_shares, input_piece_size,",
      "C36.5"),
    M("mut-pieces-n-not-k", PUB, "        crypttext_pieces = [None] * self.required_shares", "        crypttext_pieces = [None] * self.total_shares", "C36.5"),
    M("mut-padding-dropped", PUB, "            piece = piece + b\"\\x00\"*(piece_size - len(piece)) # padding\n", "", "C36.5"),
    M("benign-imm-appends-reordered", NODE,
      "            shareids.append(shareid)\n            shares.append(share)\n", "            shares.append(share)\n            shareids.append(shareid)\n", None),
    M("benign-mut-truncate-reordered", RET,
      "        shareids = shareids[:self._required_shares]\n        shares = shares[:self._required_shares]\n",
      "        shares = shares[:self._required_shares]\n        shareids = shareids[:self._required_shares]\n", None),
    # ---- C36.5  mutable retrieve: what is decoded is the component _validate_block validated, under that share's number
    M("mut-decodes-the-salts", RET, "        share_and_shareids = [(k, v[0]) for k, v in blocks_and_salts.items()]",
      "        share_and_shareids = [(k, v[1]) for k, v in blocks_and_salts.items()]", "C36.5"),
    M("mut-validate-returns-salt-first", RET, "        return {reader.shnum: (block, salt)}", "        return {reader.shnum: (salt, block)}", "C36.5"),
    M("mut-validated-block-filed-under-segnum", RET, "        return {reader.shnum: (block, salt)}", "        return {segnum: (block, salt)}", "C36.5"),
    M("mut-decodes-whole-entries", RET, "        share_and_shareids = [(k, v[0]) for k, v in blocks_and_salts.items()]",
      "        share_and_shareids = [(k, v) for k, v in blocks_and_salts.items()]", "C36.5"),
    M("benign-mut-blocks-by-dict-comprehension", RET,
      "        share_and_shareids = [(k, v[0]) for k, v in blocks_and_salts.items()]\n        d2 = dict(share_and_shareids)\n",
      "        d2 = {shnum: pair[0] for shnum, pair in blocks_and_salts.items()}\n", None),
    M("benign-mut-block-unpacked-in-loop-target", RET,
      "        share_and_shareids = [(k, v[0]) for k, v in blocks_and_salts.items()]\n        d2 = dict(share_and_shareids)\n"
      "        shareids = []\n        shares = []\n        for shareid, share in d2.items():\n",
      "        shareids = []\n        shares = []\n        for shareid, (share, _salt) in blocks_and_salts.items():\n", None),
    M("mut-salt-unpacked-as-block-in-loop-target", RET,
      "        share_and_shareids = [(k, v[0]) for k, v in blocks_and_salts.items()]\n        d2 = dict(share_and_shareids)\n"
      "        shareids = []\n        shares = []\n        for shareid, share in d2.items():\n",
      "        shareids = []\n        shares = []\n        for shareid, (_salt, share) in blocks_and_salts.items():\n", "C36.5"),
    M("benign-mut-validate-named-result", RET, "        return {reader.shnum: (block, salt)}",
      "        shnum = reader.shnum\n        validated = (block, salt)\n        return {shnum: validated}", None),
    M("vanish-validate-block", RET, "    async def _validate_block(self, results, segnum, reader, server, started):",
      "    async def _validate_blockX(self, results, segnum, reader, server, started):", "ANALYSIS-ERROR",
      edits=[(RET, "            d.addCallback(self._validate_block, segnum, reader, reader.server, started)",
              "            d.addCallback(self._validate_blockX, segnum, reader, reader.server, started)")]),
    # ---- C36.6  (the codec object is shared and the zfec work is deferred: per-call data stays in the call's frame)
    M("decode-inputs-stashed-on-instance", CODEC, DECODE_TAIL,
      "        self._shares = some_shares\n        self._shareids = [int(s) for s in their_shareids]\n"
      "        return await defer_to_thread(self._decode_in_thread)\n\n"
      "    def _decode_in_thread(self):\n        return self.decoder.decode(self._shares, self._shareids)\n", "C36.6"),
    M("decode-closure-reads-instance", CODEC, DECODE_TAIL,
      "        self._pending = (some_shares, [int(s) for s in their_shareids])\n"
      "        def job():\n            blocks, ids = self._pending\n            return self.decoder.decode(blocks, ids)\n"
      "        return await defer_to_thread(job)\n", "C36.6"),
    M("decode-inputs-queued-on-instance", CODEC,
      "        self.decoder = zfec.Decoder(self.required_shares, self.max_shares)\n\n    def get_needed_shares(self):\n"
      "        return self.required_shares\n",
      "        self.decoder = zfec.Decoder(self.required_shares, self.max_shares)\n        self._jobs = []\n\n"
      "    def get_needed_shares(self):\n        return self.required_shares\n\n"
      "    def _next_job(self):\n        blocks, ids = self._jobs.pop()\n        return self.decoder.decode(blocks, ids)\n",
      "C36.6", edits=[(CODEC, DECODE_TAIL,
                       "        self._jobs.append((some_shares, [int(s) for s in their_shareids]))\n"
                       "        return await defer_to_thread(self._next_job)\n")]),
    M("decode-ids-on-instance-after-await", CODEC, DECODE_TAIL,
      "        self._ids = [int(s) for s in their_shareids]\n        await defer_to_thread(self._check_ids)\n"
      "        return await defer_to_thread(self.decoder.decode, some_shares, self._ids)\n\n"
      "    def _check_ids(self):\n        assert all(0 <= i < self.max_shares for i in self._ids)\n", "C36.6"),
    M("encode-inputs-stashed-on-instance", CODEC,
      "        shares = await defer_to_thread(self.encoder.encode, inshares, desired_share_ids)\n",
      "        self._inshares = inshares\n        self._wanted = desired_share_ids\n"
      "        shares = await defer_to_thread(self._encode_in_thread)\n",
      "C36.6", edits=[(CODEC, "    def encode_proposal(self, data, desired_share_ids=None):",
                       "    def _encode_in_thread(self):\n        return self.encoder.encode(self._inshares, self._wanted)\n\n"
                       "    def encode_proposal(self, data, desired_share_ids=None):")]),
    M("encode-partial-over-instance-state", CODEC,
      "        shares = await defer_to_thread(self.encoder.encode, inshares, desired_share_ids)\n",
      "        setattr(self, '_wanted', desired_share_ids)\n"
      "        shares = await defer_to_thread(lambda: self.encoder.encode(inshares, self._wanted))\n", "C36.6"),
    M("decode-inputs-in-module-global", CODEC, DECODE_TAIL,
      "        global _PENDING\n        _PENDING = (some_shares, [int(s) for s in their_shareids])\n"
      "        return await defer_to_thread(_decode_pending, self.decoder)\n",
      "C36.6", edits=[(CODEC, "def parse_params(serializedparams):",
                       "def _decode_pending(decoder):\n    blocks, ids = _PENDING\n    return decoder.decode(blocks, ids)\n\n"
                       "def parse_params(serializedparams):")]),
    M("decode-inputs-on-class-attribute", CODEC, DECODE_TAIL,
      "        CRSDecoder._current = {'blocks': some_shares, 'ids': [int(s) for s in their_shareids]}\n"
      "        return await defer_to_thread(lambda: self.decoder.decode(CRSDecoder._current['blocks'], CRSDecoder._current['ids']))\n",
      "C36.6"),
    M("benign-decode-module-level-helper", CODEC, DECODE_TAIL,
      "        return await defer_to_thread(_decode_job, self.decoder, some_shares, [int(s) for s in their_shareids])\n",
      None, edits=[(CODEC, "def parse_params(serializedparams):",
                    "def _decode_job(decoder, blocks, ids):\n    return decoder.decode(blocks, ids)\n\n"
                    "def parse_params(serializedparams):")]),
    M("benign-decode-helper-with-arguments", CODEC, DECODE_TAIL,
      "        return await defer_to_thread(self._decode_in_thread, some_shares, [int(s) for s in their_shareids])\n\n"
      "    def _decode_in_thread(self, blocks, blocknums):\n        return self.decoder.decode(blocks, blocknums)\n", None),
    M("benign-decode-closure-over-locals", CODEC, DECODE_TAIL,
      "        ids = [int(s) for s in their_shareids]\n        def job():\n            return self.decoder.decode(some_shares, ids)\n"
      "        return await defer_to_thread(job)\n", None),
    M("benign-decode-call-counter-on-instance", CODEC, DECODE_TAIL,
      "        self._decodes = getattr(self, '_decodes', 0) + 1\n" + DECODE_TAIL, None),
    M("benign-decode-stash-read-in-same-turn", CODEC, DECODE_TAIL,
      "        self._last_ids = [int(s) for s in their_shareids]\n"
      "        return await defer_to_thread(self.decoder.decode, some_shares, self._last_ids)\n", None),
    M("benign-encode-partial-of-locals", CODEC,
      "        shares = await defer_to_thread(self.encoder.encode, inshares, desired_share_ids)\n",
      "        job = partial(self.encoder.encode, inshares, desired_share_ids)\n        shares = await defer_to_thread(job)\n", None,
      edits=[(CODEC, "import zfec\n", "import zfec\nfrom functools import partial\n")]),
    # ---- C36.7  (the zfec object of an instance is built from - and, when memoised, keyed by - that instance's k AND N)
    M("decoder-module-cache-keyed-by-k", CODEC, DEC_CTOR,
      "        self.decoder = _get_zfec_decoder(self.required_shares, self.max_shares)", "C36.7",
      edits=[(CODEC, "@implementer(ICodecDecoder)\n",
              "_zfec_decoders = {}\n\ndef _get_zfec_decoder(required_shares, max_shares):\n    try:\n"
              "        return _zfec_decoders[required_shares]\n    except KeyError:\n"
              "        decoder = zfec.Decoder(required_shares, max_shares)\n        _zfec_decoders[required_shares] = decoder\n"
              "        return decoder\n\n\n@implementer(ICodecDecoder)\n")]),
    M("decoder-class-level-singleton", CODEC, DEC_CTOR,
      "        if CRSDecoder._zfec is None:\n            CRSDecoder._zfec = zfec.Decoder(self.required_shares, self.max_shares)\n"
      "        self.decoder = CRSDecoder._zfec", "C36.7",
      edits=[(CODEC, "class CRSDecoder:\n\n    def set_params(", "class CRSDecoder:\n    _zfec = None\n\n    def set_params(")]),
    M("decoder-module-global-singleton", CODEC, DEC_CTOR,
      "        global _DECODER\n        if _DECODER is None:\n            _DECODER = zfec.Decoder(self.required_shares, self.max_shares)\n"
      "        self.decoder = _DECODER", "C36.7", edits=[(CODEC, "import zfec\n", "import zfec\n\n_DECODER = None\n")]),
    M("encoder-inline-cache-keyed-by-k", CODEC, ENC_CTOR,
      "        enc = _ENCODERS.get(required_shares)\n        if enc is None:\n"
      "            enc = _ENCODERS[required_shares] = zfec.Encoder(required_shares, max_shares)\n        self.encoder = enc", "C36.7",
      edits=[(CODEC, "import zfec\n", "import zfec\n\n_ENCODERS = {}\n")]),
    M("decoder-cache-keyed-by-size-and-k", CODEC, DEC_CTOR,
      "        key = (self.data_size, self.required_shares)\n        if key not in _DECODERS:\n"
      "            _DECODERS[key] = zfec.Decoder(self.required_shares, self.max_shares)\n        self.decoder = _DECODERS[key]", "C36.7",
      edits=[(CODEC, "import zfec\n", "import zfec\n\n_DECODERS = {}\n")]),
    M("decoder-setdefault-keyed-by-k", CODEC, DEC_CTOR,
      "        self.decoder = _DECODERS.setdefault(self.required_shares, zfec.Decoder(self.required_shares, self.max_shares))", "C36.7",
      edits=[(CODEC, "import zfec\n", "import zfec\n\n_DECODERS = {}\n")]),
    M("decoder-memoised-factory-keyed-by-k", CODEC, DEC_CTOR,
      "        self.decoder = _decoder_for(self.required_shares)", ["C36.1", "C36.7"],
      edits=[(CODEC, "import zfec\n", "import zfec\nfrom functools import lru_cache\n\n@lru_cache(maxsize=None)\n"
              "def _decoder_for(k):\n    return zfec.Decoder(k, 256)\n")]),
    M("decoder-memoised-method-ignores-n-argument", CODEC, DEC_CTOR,
      "        self.decoder = _decoder_for(self.required_shares, max_shares=self.max_shares)", "C36.7",
      edits=[(CODEC, "import zfec\n", "import zfec\n\n_by_k = {}\n\n"
              "def _decoder_for(k, max_shares):\n    if k in _by_k:\n        return _by_k[k]\n"
              "    return _by_k.setdefault(k, zfec.Decoder(k, max_shares))\n")]),
    M("benign-decoder-factory-function", CODEC, DEC_CTOR,
      "        self.decoder = _make_decoder(self.required_shares, self.max_shares)", None,
      edits=[(CODEC, "import zfec\n", "import zfec\n\ndef _make_decoder(k, n):\n    dec = zfec.Decoder(k, n)\n    return dec\n")]),
    M("benign-decoder-module-cache-keyed-by-k-and-n", CODEC, DEC_CTOR,
      "        self.decoder = _get_zfec_decoder(self.required_shares, self.max_shares)", None,
      edits=[(CODEC, "@implementer(ICodecDecoder)\n",
              "_zfec_decoders = {}\n\ndef _get_zfec_decoder(required_shares, max_shares):\n    key = (required_shares, max_shares)\n    try:\n"
              "        return _zfec_decoders[key]\n    except KeyError:\n"
              "        decoder = zfec.Decoder(required_shares, max_shares)\n        _zfec_decoders[key] = decoder\n"
              "        return decoder\n\n\n@implementer(ICodecDecoder)\n")]),
    M("benign-decoder-nested-cache-k-then-n", CODEC, DEC_CTOR,
      "        row = _DECODERS.setdefault(required_shares, {})\n        if max_shares not in row:\n"
      "            row[max_shares] = zfec.Decoder(required_shares, max_shares)\n        self.decoder = row[max_shares]", None,
      edits=[(CODEC, "import zfec\n", "import zfec\n\n_DECODERS = {}\n")]),
    M("benign-encoder-memoised-factory-both-arguments", CODEC, ENC_CTOR,
      "        self.encoder = _encoder_for(required_shares, max_shares)", None,
      edits=[(CODEC, "import zfec\n", "import zfec\nimport functools\n\n@functools.lru_cache(maxsize=16)\n"
              "def _encoder_for(k, n):\n    return zfec.Encoder(k, n)\n")]),
    M("benign-decoder-imported-class-and-temporary", CODEC, DEC_CTOR,
      "        dec = Decoder(self.required_shares, self.max_shares)\n        self.decoder = dec", None,
      edits=[(CODEC, "import zfec\n", "import zfec\nfrom zfec import Decoder\n")]),
    M("benign-decoder-helper-method-reads-attributes", CODEC, DEC_CTOR,
      "        self.decoder = self._build()\n\n    def _build(self):\n        return zfec.Decoder(self.required_shares, self.max_shares)", None),
    M("benign-decoder-placeholder-in-init", CODEC, "class CRSDecoder:\n\n    def set_params(",
      "class CRSDecoder:\n\n    def __init__(self):\n        self.decoder = None\n\n    def set_params(", None),
    M("vanish-decoder-built-by-unknown-wrapper", CODEC, DEC_CTOR,
      "        self.decoder = mathutil.make_decoder(self.required_shares, self.max_shares)", "ANALYSIS-ERROR"),
    # ---- vanished anchor
    M("vanish-decode", CODEC, "    async def decode(self, some_shares, their_shareids):", "    async def decodeX(self, some_shares, their_shareids):",
      "ANALYSIS-ERROR"),
]
