from .runner import M

CODEC = "src/allmydata/codec.py"
NODE = "src/allmydata/immutable/downloader/node.py"
ENC = "src/allmydata/immutable/encode.py"
PUB = "src/allmydata/mutable/publish.py"
RET = "src/allmydata/mutable/retrieve.py"

MUTANTS = [
    # ---- C36.1
    M("encoder-ctor-swapped", CODEC, "        self.encoder = zfec.Encoder(required_shares, max_shares)",
      "        self.encoder = zfec.Encoder(max_shares, required_shares)", "C36.1"),
    M("decoder-ctor-swapped", CODEC, "        self.decoder = zfec.Decoder(self.required_shares, self.max_shares)",
      "        self.decoder = zfec.Decoder(self.max_shares, self.required_shares)", "C36.1"),
    M("decoder-attrs-crossed", CODEC,
      "        self.required_shares = required_shares\n        self.max_shares = max_shares\n\n        self.chunk_size",
      "        self.required_shares = max_shares\n        self.max_shares = required_shares\n\n        self.chunk_size", "C36.1"),
    M("decoder-signature-reordered", CODEC,
      "class CRSDecoder:\n\n    def set_params(self, data_size, required_shares, max_shares):",
      "class CRSDecoder:\n\n    def set_params(self, data_size, max_shares, required_shares):", "C36.1"),
    # ---- C36.2
    M("decoder-block-size-floor", CODEC,
      "        self.num_chunks = mathutil.div_ceil(self.data_size, self.chunk_size)", "        self.num_chunks = self.data_size // self.chunk_size",
      "C36.2"),
    M("encoder-block-size-floor", CODEC,
      "        self.share_size = mathutil.div_ceil(data_size, required_shares)", "        self.share_size = data_size // required_shares", "C36.2"),
    M("decoder-chunk-is-n", CODEC, "        self.chunk_size = self.required_shares", "        self.chunk_size = self.max_shares", "C36.2"),
    M("benign-decoder-direct-formula", CODEC,
      "        self.chunk_size = self.required_shares\n        self.num_chunks = mathutil.div_ceil(self.data_size, self.chunk_size)\n        self.share_size = self.num_chunks\n",
      "        self.share_size = mathutil.div_ceil(data_size, required_shares)\n", None),
    # ---- C36.3
    M("decode-ids-sorted", CODEC, "            [int(s) for s in their_shareids]", "            [int(s) for s in sorted(their_shareids)]", "C36.3"),
    M("decode-args-swapped", CODEC,
      "            some_shares,\n            [int(s) for s in their_shareids]\n", "            [int(s) for s in their_shareids],\n            some_shares\n", "C36.3"),
    M("decode-k-precondition-dropped", CODEC,
      "        precondition(len(some_shares) == self.required_shares,\n                     len(some_shares), self.required_shares)\n", "", "C36.3"),
    M("decode-k-precondition-weakened", CODEC,
      "        precondition(len(some_shares) == self.required_shares,", "        precondition(len(some_shares) >= self.required_shares,", "C36.3"),
    M("benign-decode-hoisted-ids", CODEC,
      "        return await defer_to_thread(\n            self.decoder.decode,\n            some_shares,\n            [int(s) for s in their_shareids]\n        )",
      "        ids = [int(s) for s in their_shareids]\n        return await defer_to_thread(self.decoder.decode, some_shares, ids)", None),
    # ---- C36.4
    M("encode-length-check-dropped", CODEC,
      "        for inshare in inshares:\n            assert len(inshare) == self.share_size, (len(inshare), self.share_size, self.data_size, self.required_shares)\n",
      "", "C36.4"),
    M("encode-checks-first-piece-only", CODEC,
      "        for inshare in inshares:\n            assert len(inshare) == self.share_size, (len(inshare), self.share_size, self.data_size, self.required_shares)\n",
      "        for inshare in inshares:\n            assert len(inshare) == self.share_size, (len(inshare), self.share_size, self.data_size, self.required_shares)\n            break\n",
      "C36.4"),
    M("encode-default-ids-primary-only", CODEC,
      "            desired_share_ids = list(range(self.max_shares))", "            desired_share_ids = list(range(self.required_shares))", "C36.4"),
    M("encode-returns-other-ids", CODEC,
      "        return (shares, desired_share_ids)", "        return (shares, list(range(len(shares))))", "C36.4"),
    M("benign-encode-rename-loop-var", CODEC,
      "        for inshare in inshares:\n            assert len(inshare) == self.share_size, (len(inshare), self.share_size, self.data_size, self.required_shares)\n",
      "        for piece in inshares:\n            assert self.share_size == len(piece), (len(piece), self.share_size)\n", None),
    # ---- C36.5
    M("imm-decode-args-swapped", NODE, "        d = codec.decode(shares, shareids)   # segment", "        d = codec.decode(shareids, shares)   # segment", "C36.5"),
    M("imm-ids-sorted-alone", NODE, "        del blocks\n", "        del blocks\n        shareids = sorted(shareids)\n", "C36.5"),
    M("imm-ids-sorted-in-place", NODE, "        del blocks\n", "        del blocks\n        shareids.sort()\n", "C36.5"),
    M("imm-append-conditional", NODE,
      "            shareids.append(shareid)\n            shares.append(share)\n",
      "            if shareid not in shareids:\n                shareids.append(shareid)\n            shares.append(share)\n", "C36.5"),
    M("mut-only-ids-truncated", RET, "        shares = shares[:self._required_shares]\n", "", "C36.5"),
    M("imm-chunks-n-not-k", ENC, "        d = self._gather_data(self.required_shares, input_piece_size,", "        d = self._gather_data(self.num_shares, input_piece_size,",
      "C36.5"),
    M("mut-pieces-n-not-k", PUB, "        crypttext_pieces = [None] * self.required_shares", "        crypttext_pieces = [None] * self.total_shares", "C36.5"),
    M("mut-padding-dropped", PUB, "            piece = piece + b\"\\x00\"*(piece_size - len(piece)) # padding\n", "", "C36.5"),
    M("benign-imm-appends-reordered", NODE,
      "            shareids.append(shareid)\n            shares.append(share)\n", "            shares.append(share)\n            shareids.append(shareid)\n", None),
    M("benign-mut-truncate-reordered", RET,
      "        shareids = shareids[:self._required_shares]\n        shares = shares[:self._required_shares]\n",
      "        shares = shares[:self._required_shares]\n        shareids = shareids[:self._required_shares]\n", None),
    # ---- vanished anchor
    M("vanish-decode", CODEC, "    async def decode(self, some_shares, their_shareids):", "    async def decodeX(self, some_shares, their_shareids):",
      "ANALYSIS-ERROR"),
]
