from .runner import M

LEASE = "src/allmydata/storage/lease.py"
LS = "src/allmydata/storage/lease_schema.py"
IMM = "src/allmydata/storage/immutable.py"
IMS = "src/allmydata/storage/immutable_schema.py"
MUT = "src/allmydata/storage/mutable.py"
MUS = "src/allmydata/storage/mutable_schema.py"
NS = "src/allmydata/util/netstring.py"
URI = "src/allmydata/uri.py"
ENC = "src/allmydata/immutable/encode.py"
LAY = "src/allmydata/immutable/layout.py"
SHR = "src/allmydata/immutable/downloader/share.py"
MLAY = "src/allmydata/mutable/layout.py"

PINNED = "test_netstring exercises this function, so the utility tests also notice; kept to show the rule sees it"

H_RENEW = ("    def renew(self, new_expire_time):\n"
           "        # Preserve the HashedLeaseInfo wrapper around the renewed LeaseInfo.\n"
           "        return attr.assoc(\n"
           "            self,\n"
           "            _lease_info=super(HashedLeaseInfo, self).renew(new_expire_time),\n"
           "        )\n"
           "\n")
SER_HASH = ("        if isinstance(lease, LeaseInfo):\n"
            "            # v2 of the immutable schema stores lease secrets hashed.  If\n")

CCS_READ = ("        f.seek(old_extra_lease_offset)\n"
            "        leases_size = 4 + num_extra_leases * self.LEASE_SIZE\n"
            "        extra_lease_data = f.read(leases_size)\n")
CCS_MOVE = ("        f.seek(old_extra_lease_offset)\n"
            "        f.write(b'\\x00' * leases_size)\n"
            "        f.flush()\n"
            "\n"
            "        # An interrupt here will corrupt the leases.\n"
            "\n"
            "        f.seek(new_extra_lease_offset)\n"
            "        f.write(extra_lease_data)\n"
            "        self._write_extra_lease_offset(f, new_extra_lease_offset)\n")

B32 = "src/allmydata/util/base32.py"
_B32_HELPER_OLD = """def _get_trailing_chars_without_lsbs(N, d):
    \"\"\"
    @return: a list of chars that can legitimately appear in the last place when the least significant N bits are ignored.
    \"\"\"
    s = []
    if N < 4:
        s.extend(_get_trailing_chars_without_lsbs(N+1, d=d))
    i = 0
    while i < len(chars):
        if i not in d:
            d[i] = None
            s.append(chars[i:i+1])
        i = i + 2**N
    return s

def get_trailing_chars_without_lsbs(N):
    precondition((N >= 0) and (N < 5), "N is required to be > 0 and < len(chars).", N=N)
    if N == 0:
        return chars
    d = {}
    return b''.join(_get_trailing_chars_without_lsbs(N, d=d))
"""
_B32_HELPER_NEW = """def get_trailing_chars_without_lsbs(N):
    precondition((N >= 0) and (N < 5), "N is required to be >= 0 and < 5.", N=N)
    return bytes(c for (v, c) in enumerate(chars) if %s)
"""
_B32_TABLE_OLD = """def add_check_array(cs, sfmap):
    checka=[0] * 256
    for c in bytes(cs):
        checka[c] = 1
    sfmap.append(tuple(checka))

def init_s8():
    s8 = []
    add_check_array(chars, s8)
    for lenmod8 in (1, 2, 3, 4, 5, 6, 7,):
        if NUM_QS_LEGIT[lenmod8]:
            add_check_array(get_trailing_chars_without_lsbs(5-(NUM_QS_TO_NUM_BITS[lenmod8]%5)), s8)
        else:
            add_check_array(b'', s8)
    return tuple(s8)
s8 = init_s8()

def could_be_base32_encoded(s, s8=s8, tr=bytes.translate, identitytranstable=identitytranstable, chars=chars):
    precondition(isinstance(s, bytes), s)
    if s == b'':
        return True
    s = bytes(s)  # On Python 2, make sure we're using modern bytes
    return s8[len(s)%8][s[-1]] and not tr(s, identitytranstable, chars)
"""
_B32_TABLE_NEW = """LAST_CHARS = tuple(
    get_trailing_chars_without_lsbs((5 - numbits % 5) % 5) if legit else b''
    for (legit, numbits) in zip(NUM_QS_LEGIT, NUM_QS_TO_NUM_BITS)
)

def could_be_base32_encoded(s):
    precondition(isinstance(s, bytes), s)
    if s == b'':
        return True
    return s[-1] in LAST_CHARS[len(s)%8] and not s.translate(None, chars)
"""
_B32_PAD_OLD = """    while (len(cs) * 5) % 8 != 0:
        cs += b"="
"""
_B32_PAD_NEW = """    cs += b"=" * (-len(cs) % 8)
"""

# -- round 7: the C23-I refactor (_write_share_data split into _zero_fill / _ensure_container_holds helpers)
WSD_OLD = "    def _write_share_data(self, f, offset, data):\n        length = len(data)\n        precondition(offset >= 0)\n        data_length = self._read_data_length(f)\n        extra_lease_offset = self._read_extra_lease_offset(f)\n\n        if offset+length >= data_length:\n            # They are expanding their data size.\n\n            if self.DATA_OFFSET+offset+length > extra_lease_offset:\n                # TODO: allow containers to shrink. For now, they remain\n                # large.\n\n                # Their new data won't fit in the current container, so we\n                # have to move the leases. With luck, they're expanding it\n                # more than the size of the extra lease block, which will\n                # minimize the corrupt-the-share window\n                self._change_container_size(f, offset+length)\n                extra_lease_offset = self._read_extra_lease_offset(f)\n\n                # an interrupt here is ok.. the container has been enlarged\n                # but the data remains untouched\n\n            assert self.DATA_OFFSET+offset+length <= extra_lease_offset\n            # Their data now fits in the current container. We must write\n            # their new data and modify the recorded data size.\n\n            # Fill any newly exposed empty space with 0's.\n            if offset > data_length:\n                f.seek(self.DATA_OFFSET+data_length)\n                f.write(b'\\x00'*(offset - data_length))\n                f.flush()\n\n            new_data_length = offset+length\n            self._write_data_length(f, new_data_length)\n            # an interrupt here will result in a corrupted share\n\n        # now all that's left to do is write out their data\n        f.seek(self.DATA_OFFSET+offset)\n        f.write(data)\n        return\n\n"


def _wsd_helpers(order=("ensure", "fill"), grow_test="self.DATA_OFFSET+data_end > self._read_extra_lease_offset(f)", keep_assert=True,
                 fill_call="self._zero_fill(f, data_length, offset)"):
    calls = {"ensure": "            self._ensure_container_holds(f, new_data_length)\n", "fill": "            %s\n" % fill_call}
    return ("    def _zero_fill(self, f, start, end):\n"
            "        if end > start:\n"
            "            f.seek(self.DATA_OFFSET+start)\n"
            "            f.write(b'\\x00'*(end - start))\n"
            "            f.flush()\n\n"
            "    def _ensure_container_holds(self, f, data_end):\n"
            "        if %s:\n"
            "            self._change_container_size(f, data_end)\n" % grow_test
            + ("        assert self.DATA_OFFSET+data_end <= self._read_extra_lease_offset(f)\n" if keep_assert else "") +
            "\n    def _write_share_data(self, f, offset, data):\n"
            "        precondition(offset >= 0)\n"
            "        data_length = self._read_data_length(f)\n"
            "        new_data_length = offset + len(data)\n\n"
            "        if new_data_length >= data_length:\n"
            + "".join(calls[k] for k in order) +
            "            self._write_data_length(f, new_data_length)\n\n"
            "        f.seek(self.DATA_OFFSET+offset)\n"
            "        f.write(data)\n\n")


WSD_REST = [
    (MUT, "        if offset+length > data_length:\n            # reads beyond the end of the data are truncated. Reads that\n"
          "            # start beyond the end of the data return an empty string.\n            length = max(0, data_length-offset)\n",
     "        length = max(0, min(length, data_length-offset))\n"),
    (MUT, "        data = f.read(length)\n        return data\n", "        return f.read(length)\n"),
    (MUT, "            if new_length is not None:\n                cur_length = self._read_data_length(f)\n"
          "                if new_length < cur_length:\n                    self._write_data_length(f, new_length)\n",
     "            if new_length is not None and new_length < self._read_data_length(f):\n"
     "                self._write_data_length(f, new_length)\n"),
]

# -- round 7: the C25-I refactor (lease-slot iteration as generators)
ENUM_OLD = '    def _get_first_empty_lease_slot(self, f):\n        # return an int with the index of an empty slot, or None if we do not\n        # currently have an empty slot\n\n        for i in range(self._get_num_lease_slots(f)):\n            if self._read_lease_record(f, i) is None:\n                return i\n        return None\n\n    def get_leases(self):\n        """Yields a LeaseInfo instance for all leases."""\n        with open(self.home, \'rb\') as f:\n            for i, lease in self._enumerate_leases(f):\n                yield lease\n\n    def _enumerate_leases(self, f):\n        for i in range(self._get_num_lease_slots(f)):\n            try:\n                data = self._read_lease_record(f, i)\n                if data is not None:\n                    yield i,data\n            except IndexError:\n                return\n\n'


def _enum_generators(enum="return ((i, lease) for i, lease in enumerate(self._iter_lease_slots(f)) if lease is not None)",
                     slots="range(self._get_num_lease_slots(f))", item="self._read_lease_record(f, i)"):
    return ("    def _iter_lease_slots(self, f):\n"
            "        for i in %s:\n"
            "            try:\n"
            "                yield %s\n"
            "            except IndexError:\n"
            "                return\n\n"
            "    def _iter_leases(self, f):\n"
            "        return (lease for lease in self._iter_lease_slots(f) if lease is not None)\n\n"
            "    def _get_first_empty_lease_slot(self, f):\n"
            "        return next(\n"
            "            (i for i, lease in enumerate(self._iter_lease_slots(f)) if lease is None),\n"
            "            None,\n"
            "        )\n\n"
            "    def get_leases(self):\n"
            "        \"\"\"Yields a LeaseInfo instance for all leases.\"\"\"\n"
            "        with open(self.home, 'rb') as f:\n"
            "            yield from self._iter_leases(f)\n\n"
            "    def _enumerate_leases(self, f):\n"
            "        %s\n\n" % (slots, item, enum))


MUTANTS = [
    # ---- C38.1 lease records
    M("lease-reader-names-swapped", LEASE,
      '            "renew_secret",\n            "cancel_secret",\n            "expiration_time",\n        ]',
      '            "cancel_secret",\n            "renew_secret",\n            "expiration_time",\n        ]', "C38.1"),
    M("lease-mutable-pack-order", LEASE,
      "                           self.owner_num,\n                           int(self._expiration_time),\n                           self.renew_secret, self.cancel_secret,\n                           self.nodeid)",
      "                           int(self._expiration_time),\n                           self.owner_num,\n                           self.renew_secret, self.cancel_secret,\n                           self.nodeid)", "C38.1"),
    M("lease-format-64bit-expiry", LEASE, 'IMMUTABLE_FORMAT = ">L32s32sL"', 'IMMUTABLE_FORMAT = ">L32s32sQ"', "C38.1"),
    M("lease-expiration-not-int", LEASE,
      "                           self.renew_secret, self.cancel_secret,\n                           int(self._expiration_time))",
      "                           self.renew_secret, self.cancel_secret,\n                           self._expiration_time)", "C38.1"),
    M("lease-unpack-other-format", LEASE, "        values = struct.unpack(MUTABLE_FORMAT, data)\n        return cls(**dict(zip(names, values)))",
      "        values = struct.unpack(\">LL32s32s20s\"[:-3], data[:72])\n        return cls(**dict(zip(names, values)))", "C38.1"),
    M("serializer-v2-mutable-immutable-writer", LS, "v2_mutable = HashedLeaseSerializer(\n    HashedLeaseInfo.to_mutable_data,",
      "v2_mutable = HashedLeaseSerializer(\n    HashedLeaseInfo.to_immutable_data,", "C38.1"),
    M("schema-v2-cleartext-serializer", IMS, "    _Schema(version=2, lease_serializer=v2_immutable),", "    _Schema(version=2, lease_serializer=v1_immutable),", "C38.1"),
    M("hashed-secret-64-bytes", LS, "        return blake2b(secret, digest_size=32, encoder=RawEncoder)",
      "        return blake2b(secret, digest_size=64, encoder=RawEncoder)", "C38.1"),
    M("hashed-secret-hex", LS, "        return blake2b(secret, digest_size=32, encoder=RawEncoder)",
      "        return blake2b(secret, digest_size=32)", "C38.1"),
    M("lease-size-literal-stale", MUT, '    LEASE_SIZE = struct.calcsize(">LL32s32s20s")\n    assert LEASE_SIZE == 92\n',
      '    LEASE_SIZE = struct.calcsize(">LL32s32s")\n', "C38.1"),
    # ---- C38.2 immutable header
    M("imm-length-not-saturated", IMS, '        return struct.pack(">LLL", self.version, min(2**32 - 1, max_size), 0)',
      '        return struct.pack(">LLL", self.version, max_size, 0)', "C38.2"),
    M("imm-header-wider-length", IMS, '        return struct.pack(">LLL", self.version, min(2**32 - 1, max_size), 0)',
      '        return struct.pack(">LQL", self.version, max_size, 0)', "C38.2"),
    M("imm-reader-fields-swapped", IMM,
      '                (version, unused, num_leases) = struct.unpack(">LLL", f.read(0xc))\n            self._schema = schema_from_version(version)',
      '                (version, num_leases, unused) = struct.unpack(">LLL", f.read(0xc))\n            self._schema = schema_from_version(version)', "C38.2"),
    M("imm-lease-count-offset", IMM, "        f.seek(0x08)\n        (num_leases,) = struct.unpack(", "        f.seek(0x04)\n        (num_leases,) = struct.unpack(", "C38.2"),
    M("imm-lease-offset-on-create", IMM, "            self._lease_offset = max_size + 0x0c\n", "            self._lease_offset = max_size\n", "C38.2"),
    M("imm-length-ignores-header", IMM, "            self._length = filesize - 0xc - (num_leases * self.LEASE_SIZE)",
      "            self._length = filesize - (num_leases * self.LEASE_SIZE)", "C38.2"),
    M("imm-count-bound-8", IMM, "    if struct.calcsize(fixed) > 4:", "    if struct.calcsize(fixed) > 8:", "C38.2"),
    M("imm-data-offset", IMM, "        self._data_offset = 0xc\n", "        self._data_offset = 0x8\n", "C38.2"),
    M("imm-record-offset", IMM, "        offset = self._lease_offset + lease_number * self.LEASE_SIZE\n",
      "        offset = self._lease_offset + lease_number * self._lease_count_size\n", "C38.2"),
    # ---- C38.3 mutable header
    M("mut-header-enabler-nodeid-swapped", MUS, "        magic,\n        nodeid,\n        write_enabler,\n", "        magic,\n        write_enabler,\n        nodeid,\n", "C38.3"),
    M("mut-hop-args-swapped", MUS, "        return _header(self._magic, _EXTRA_LEASE_OFFSET, nodeid, write_enabler)",
      "        return _header(self._magic, _EXTRA_LEASE_OFFSET, write_enabler, nodeid)", "C38.3"),
    M("mut-create-args-swapped", MUT, "            f.write(self._schema.header(my_nodeid, write_enabler))", "            f.write(self._schema.header(write_enabler, my_nodeid))", "C38.3"),
    M("mut-reader-returns-swapped", MUT, "        return (write_enabler, write_enabler_nodeid)", "        return (write_enabler_nodeid, write_enabler)", "C38.3"),
    M("mut-reader-targets-swapped", MUT, "         write_enabler_nodeid, write_enabler,\n         data_length, extra_least_offset) = \\",
      "         write_enabler, write_enabler_nodeid,\n         data_length, extra_least_offset) = \\", "C38.3"),
    M("mut-extra-lease-offset-const", MUT, "    EXTRA_LEASE_OFFSET = DATA_LENGTH_OFFSET + 8\n", "    EXTRA_LEASE_OFFSET = DATA_LENGTH_OFFSET + 4\n", "C38.3"),
    M("mut-data-length-32bit", MUT, '        f.write(struct.pack(">Q", data_length))', '        f.write(struct.pack(">L", data_length))', "C38.3"),
    M("mut-reader-slot-formula", MUT,
      "            offset = (extra_lease_offset\n                      + 4\n                      + (lease_number-4)*self.LEASE_SIZE)\n        else:\n            raise IndexError",
      "            offset = (extra_lease_offset\n                      + (lease_number-4)*self.LEASE_SIZE)\n        else:\n            raise IndexError", "C38.3"),
    M("mut-initial-extra-offset", MUS, "_EXTRA_LEASE_OFFSET = _HEADER_SIZE + 4 * LeaseInfo().mutable_size()", "_EXTRA_LEASE_OFFSET = _HEADER_SIZE", "C38.3"),
    M("mut-slot-guard", MUT,
      "        if lease_number < 4:\n            offset = self.HEADER_SIZE + lease_number * self.LEASE_SIZE\n        elif (lease_number-4) < num_extra_leases:\n            offset = (extra_lease_offset\n                      + 4\n                      + (lease_number-4)*self.LEASE_SIZE)\n        else:\n            # must add",
      "        if lease_number <= 4:\n            offset = self.HEADER_SIZE + lease_number * self.LEASE_SIZE\n        elif (lease_number-4) < num_extra_leases:\n            offset = (extra_lease_offset\n                      + 4\n                      + (lease_number-4)*self.LEASE_SIZE)\n        else:\n            # must add", "C38.3"),
    M("mut-three-blank-slots", MUS, '    blank_leases = b"\\x00" * LeaseInfo().mutable_size() * 4', '    blank_leases = b"\\x00" * LeaseInfo().mutable_size() * 3', "C38.3"),
    M("mut-extra-count-16bit", MUT, '        f.write(struct.pack(">L", num_leases))', '        f.write(struct.pack(">H", num_leases))', "C38.3"),
    # ---- C38.4 magic
    M("magic-v1-byte-changed", MUS, 'random_bytes = b"\\x75\\x09\\x44\\x03\\x8e"', 'random_bytes = b"\\x75\\x09\\x44\\x03\\x8f"', "C38.4"),
    M("magic-v2-tag-changed", MUS, '            b"allmydata_mutable_container_header",', '            b"allmydata_mutable_container_header_v2",', "C38.4"),
    M("magic-banner-without-version", MUS, 'human_readable = u"Tahoe mutable container v{:d}\\n".format(version).encode("ascii")',
      'human_readable = u"Tahoe mutable container v1\\n".encode("ascii")', "C38.4"),
    M("magic-prefix-compare", MUS, "        return candidate_magic[:len(self._magic)] == self._magic", "        return candidate_magic[:25] == self._magic[:25]", "C38.4"),
    M("magic-other-version", MUS, "        return cls(version, lease_serializer, magic=_magic(version))", "        return cls(version, lease_serializer, magic=_magic(1))", "C38.4"),
    # ---- C38.5 netstring
    M("netstring-reader-off-by-one", NS, "        string = data[colon+1:colon+1+length]", "        string = data[colon:colon+length]", "C38.5", note=PINNED),
    M("netstring-reader-no-trailer-check", NS, '        assert data[position] == b","[0], position\n', "", "C38.5", note=PINNED),
    M("netstring-writer-semicolon", NS, '    return b"%d:%s," % (len(s), s,)', '    return b"%d:%s;" % (len(s), s,)', ["C38.5", "C38.6"], note=PINNED),
    M("netstring-short-payload-accepted", NS, "        assert len(string) == length, (len(string), length)\n", "", "C38.5", note=PINNED),
    M("netstring-too-few-accepted", NS, "    if len(elements) < numstrings:\n        raise ValueError(\"ran out of netstrings\")\n", "    if len(elements) < numstrings:\n        pass\n", "C38.5", note=PINNED),
    M("netstring-leftover-and-or", NS, "        if ((len(data) - position) != len(required_trailer)) or (data[position:] != required_trailer):",
      "        if ((len(data) - position) != len(required_trailer)) and (data[position:] != required_trailer):", "C38.5", note=PINNED),
    M("netstring-leftover-not-raised", NS, "            raise ValueError(\"leftover data in netstrings\")\n", "            pass\n", "C38.5", note=PINNED),
    M("benign-netstring-trailer-check-simplified", NS, "        if ((len(data) - position) != len(required_trailer)) or (data[position:] != required_trailer):",
      "        if not data[position:] == required_trailer:", None),
    # ---- C38.6 UEB
    M("ueb-intkey-dropped", URI, "    for intkey in ('size', 'segment_size', 'num_segments',\n", "    for intkey in ('size', 'segment_size',\n", "C38.6"),
    M("ueb-writer-hex", URI, '            value = b"%d" % value', '            value = b"%x" % value', "C38.6"),
    M("ueb-reader-no-comma-check", URI, "        assert data[length:length+1] == b','\n", "", "C38.6"),
    M("ueb-reader-skips-wrong", URI, "        data = data[length+1:]\n", "        data = data[length:]\n", "C38.6"),
    M("ueb-key-regex-admits-colon", URI, "        assert re.match(br'^[a-zA-Z_\\-]+$', k)", "        assert re.match(br'^[a-zA-Z_:\\-]+$', k)", "C38.6"),
    M("ueb-entry-without-delimiter", URI, "        pieces.append(k + b':' + hashutil.netstring(value))", "        pieces.append(k + b'=' + hashutil.netstring(value))", "C38.6"),
    M("ueb-encoder-new-int-key", ENC, "        data['num_segments'] = self.num_segments\n", "        data['num_segments'] = self.num_segments\n        data['k'] = self.required_shares\n", "C38.6"),
    # ---- C38.7 base32 / base62 tables (round trips of both codecs are also exercised by test_base32/test_base62)
    M("base32-length-class-rejected", "src/allmydata/util/base32.py", "NUM_QS_LEGIT=(1, 0, 1, 0, 1, 1, 0, 1,)", "NUM_QS_LEGIT=(1, 0, 1, 0, 1, 0, 0, 1,)", "C38.7",
      note="hypothesis round-trip test in test_base32 also notices"),
    M("base32-last-char-too-strict", "src/allmydata/util/base32.py", "5-(NUM_QS_TO_NUM_BITS[lenmod8]%5)", "5-(NUM_QS_TO_NUM_BITS[lenmod8]%5)+2", "C38.7",
      note="rejects encoder output; test_base32 also notices"),
    M("base32-no-upper", "src/allmydata/util/base32.py", "    cs = cs.upper()\n", "", "C38.7", note="test_base32 also notices"),
    M("base62-radix", "src/allmydata/util/base62.py", "        numvalues *= 62\n", "        numvalues *= 64\n", "C38.7", note="test_base62 also notices"),
    M("base62-wrong-table", "src/allmydata/util/base62.py", "    return translate(bytes([c for c in reversed(chars)]), v2ctranstable)",
      "    return translate(bytes([c for c in reversed(chars)]), c2vtranstable)", "C38.7", note="test_base62 also notices"),
    # ---- C38.8: the former finding (repaired in the tree, fix 7af941e); undoing the repair must fire again
    M("base32-last-char-table-too-lax", "src/allmydata/util/base32.py", "5-(NUM_QS_TO_NUM_BITS[lenmod8]%5)", "4-(NUM_QS_TO_NUM_BITS[lenmod8]%5)", "C38.8",
      note="a2b accepts non-canonical final characters: a2b(b'ac') == a2b(b'aa')"),
    # ---- round 5 (seeded C38-I): the codec is decided by interpreting a2b / b2a on probe strings, whatever tables and
    # helpers they consult; the same refactor of util/base32.py once with the slip and once done faithfully
    M("base32-refactor-mod-precedence-slip", B32, _B32_HELPER_OLD, _B32_HELPER_NEW % "v % 2*N == 0", "C38.8",
      edits=[(B32, _B32_TABLE_OLD, _B32_TABLE_NEW), (B32, _B32_PAD_OLD, _B32_PAD_NEW)],
      note="seeded C38-I: `v % 2*N` is `(v % 2) * N`; for 2..4 ignored bits every even-valued final character is accepted"),
    M("benign-base32-refactor-faithful", B32, _B32_HELPER_OLD, _B32_HELPER_NEW % "v % 2**N == 0", None,
      edits=[(B32, _B32_TABLE_OLD, _B32_TABLE_NEW), (B32, _B32_PAD_OLD, _B32_PAD_NEW)]),
    M("base32-refactor-one-bit-too-few", B32, _B32_HELPER_OLD, _B32_HELPER_NEW % "v % 2**N == 0", "C38.8",
      edits=[(B32, _B32_TABLE_OLD, _B32_TABLE_NEW.replace("(5 - numbits % 5) % 5", "(4 - numbits % 5) % 5")), (B32, _B32_PAD_OLD, _B32_PAD_NEW)],
      note="the table form of the former finding"),
    M("base32-step-slip-in-loop-form", B32, "        i = i + 2**N\n", "        i = i + 2*N\n", "C38.8",
      note="the same slip in the unrefactored helper: steps 6 and 8 instead of 8 and 16"),
    M("base32-a2b-gate-dropped", B32, '    precondition(could_be_base32_encoded(cs), "cs is required to be possibly base32 encoded data.", cs=cs)\n', "", "C38.8",
      note="base64.b32decode alone drops the unused low bits of the final character"),
    M("base32-gate-or-for-and", B32, "    return s8[len(s)%8][s[-1]] and not tr(s, identitytranstable, chars)", "    return s8[len(s)%8][s[-1]] or not tr(s, identitytranstable, chars)", "C38.8"),
    M("base32-refactor-pad-wrong-sign", B32, _B32_PAD_OLD, '    cs += b"=" * (len(cs) % 8)\n', "C38.7",
      note="pads 2 -> 4 characters instead of 2 -> 8: b32decode raises on every encoder output that needs padding; test_base32 also notices"),
    M("base32-refactor-table-skips-a-class", B32, _B32_HELPER_OLD, _B32_HELPER_NEW % "v % 2**N == 0", "C38.7",
      edits=[(B32, _B32_TABLE_OLD, _B32_TABLE_NEW.replace("zip(NUM_QS_LEGIT, NUM_QS_TO_NUM_BITS)", "zip(NUM_QS_LEGIT, NUM_QS_TO_NUM_BITS[1:])"))],
      note="table rows shifted by one length class; test_base32 also notices"),
    M("benign-base32-pad-arithmetic", B32, _B32_PAD_OLD, _B32_PAD_NEW, None),
    M("benign-base32-gate-method-translate", B32, "    return s8[len(s)%8][s[-1]] and not tr(s, identitytranstable, chars)",
      "    return bool(s8[len(s)%8][s[-1]]) and s.translate(None, chars) == b''", None),
    M("benign-base32-b2a-order", B32, '    return base64.b32encode(os).rstrip(b"=").lower()', '    encoded = base64.b32encode(os).lower()\n    return encoded.rstrip(b"=")', None),
    M("base32-codec-not-interpretable", B32, "    return base64.b32decode(cs)\n", "    return bytes(memoryview(base64.b32decode(cs)))\n", "ANALYSIS-ERROR",
      note="fail closed: the decoder uses something the constant interpreter does not model (here harmlessly)"),
    # ---- C38.9 version dispatch of the share layout readers
    M("ver-imm-and-or-slip", LAY, "        if version != 1 and version != 2:\n", "        if version < 1 and version > 2:\n", "C38.9",
      note="seeded C38-B: the range test can never be true, unknown versions are parsed with the v2 layout"),
    M("ver-imm-upper-bound-only", LAY, "        if version != 1 and version != 2:\n", "        if version > 2:\n", "C38.9",
      note="a zeroed header (version 0) falls into the else branch = v2 layout"),
    M("ver-imm-check-dropped", LAY, "        if version != 1 and version != 2:\n            raise ShareVersionIncompatible(version)\n\n", "", "C38.9"),
    M("ver-imm-v2-rejected", LAY, "        if version != 1 and version != 2:\n", "        if version != 1:\n", "C38.9",
      note="the other direction: a version the writers emit never reaches the normal exit"),
    M("ver-share-future-as-v2", SHR,
      "        elif version == 2:\n            table_start = 0x14\n            self._fieldsize = 0x8\n            self._fieldstruct = \"Q\"\n",
      "        elif version >= 2:\n            table_start = 0x14\n            self._fieldsize = 0x8\n            self._fieldstruct = \"Q\"\n", "C38.9"),
    M("ver-share-else-takes-unknown", SHR,
      "        elif version == 2:\n            table_start = 0x14\n            self._fieldsize = 0x8\n            self._fieldstruct = \"Q\"\n        else:\n            self.had_corruption = True\n            raise LayoutInvalid(\"unknown version %d (I understand 1 and 2)\"\n                                % version)\n",
      "        else:\n            table_start = 0x14\n            self._fieldsize = 0x8\n            self._fieldstruct = \"Q\"\n", "C38.9"),
    M("ver-desire-assert-wrong-range", SHR, "        assert 1 <= version <= 2, \"can't get here, version=%d\" % version\n        if version == 1:\n            table_start = 0x0c\n            fieldsize = 0x4\n        elif version == 2:\n",
      "        assert 1 <= version, \"can't get here, version=%d\" % version\n        if version == 1:\n            table_start = 0x0c\n            fieldsize = 0x4\n        else:\n", "C38.9"),
    M("ver-sdmf-unpack-share-accepts-mdmf", MLAY, "    if version != 0:\n        raise UnknownVersionError(", "    if version > 1:\n        raise UnknownVersionError(", "C38.9",
      note="an MDMF share (version 1) is parsed with the SDMF header"),
    M("ver-mdmf-proxy-else-is-sdmf", MLAY, "        elif verno == SDMF_VERSION:\n            read_size = SIGNED_PREFIX_LENGTH", "        elif verno != MDMF_VERSION:\n            read_size = SIGNED_PREFIX_LENGTH", "C38.9"),
    M("ver-mdmf-checkstring-unchecked", MLAY, "    assert version == MDMF_VERSION, version\n", "    assert version >= SDMF_VERSION, version\n", "C38.9"),
    # ---- C38.10 storage schema lookups
    M("schema-lookup-ge", IMS, "        if schema.version == version:\n", "        if schema.version >= version:\n", "C38.10"),
    M("schema-lookup-default-newest", IMS, "            return schema\n    return None\n", "            return schema\n    return NEWEST_SCHEMA_VERSION\n", "C38.10",
      note="fall-through takes unknown versions"),
    M("schema-magic-lookup-default", MUS, "        if schema.magic_matches(header):\n            return schema\n    return None\n",
      "        if schema.magic_matches(header):\n            return schema\n    return schema\n", "C38.10"),
    M("schema-magic-lookup-wrong-arg", MUS, "        if schema.magic_matches(header):\n            return schema\n", "        if schema.magic_matches(schema._magic):\n            return schema\n", "C38.10"),
    M("imm-open-unknown-version-defaulted", IMM, "            if self._schema is None:\n                raise UnknownImmutableContainerVersionError(filename, version)\n",
      "            if self._schema is None:\n                self._schema = schema\n", "C38.10"),
    M("imm-open-check-inverted", IMM, "            if self._schema is None:\n                raise UnknownImmutableContainerVersionError(filename, version)\n",
      "            if self._schema is not None:\n                raise UnknownImmutableContainerVersionError(filename, version)\n", "C38.10"),
    M("mut-open-unknown-version-logged", MUT, "            if self._schema is None:\n                raise UnknownMutableContainerVersionError(filename, header)\n",
      "            if self._schema is None:\n                self._schema = schema\n", "C38.10"),
    M("mut-valid-header-or-banner", MUT, "        return schema_from_header(header) is not None\n",
      "        return schema_from_header(header) is not None or header.startswith(b\"Tahoe mutable container\")\n", "C38.10"),
    M("imm-valid-header-inverted", IMM, "        return schema_from_version(version) is not None\n", "        return schema_from_version(version) is None\n", "C38.10"),
    # ---- C38.11 records / counts / headers are transferred (survivors of the mutation sweep)
    M("xfer-mut-record-not-written", MUT, "        assert f.tell() == offset\n        f.write(self._schema.lease_serializer.serialize(lease_info))\n        if add_extra_lease:",
      "        assert f.tell() == offset\n        if add_extra_lease:", "C38.11"),
    M("xfer-imm-record-not-written", IMM, "        assert f.tell() == offset\n        f.write(self._schema.lease_serializer.serialize(lease_info))\n",
      "        assert f.tell() == offset\n        self._schema.lease_serializer.serialize(lease_info)\n", "C38.11"),
    M("xfer-imm-count-not-written", IMM, "        f.seek(0x08)\n        f.write(encoded_num_leases)\n", "        f.seek(0x08)\n", "C38.11"),
    M("xfer-imm-add-lease-count-plus-2", IMM, "struct.pack(self._lease_count_format, num_leases + 1)", "struct.pack(self._lease_count_format, num_leases + 2)", "C38.11"),
    M("xfer-imm-add-lease-no-record", IMM, "            self._write_lease_record(f, num_leases, lease_info)\n            self._write_encoded_num_leases(f, new_lease_count)\n",
      "            self._write_encoded_num_leases(f, new_lease_count)\n", "C38.11"),
    M("xfer-imm-add-lease-no-count", IMM, "            self._write_lease_record(f, num_leases, lease_info)\n            self._write_encoded_num_leases(f, new_lease_count)\n",
      "            self._write_lease_record(f, num_leases, lease_info)\n", "C38.11"),
    M("xfer-imm-add-lease-slot-0", IMM, "            self._write_lease_record(f, num_leases, lease_info)\n            self._write_encoded_num_leases(f, new_lease_count)\n",
      "            self._write_lease_record(f, 0, lease_info)\n            self._write_encoded_num_leases(f, new_lease_count)\n", "C38.11"),
    M("xfer-imm-create-no-header", IMM, "            with open(self.home, 'wb') as f:\n                f.write(self._schema.header(max_size))\n",
      "            with open(self.home, 'wb') as f:\n                pass\n", "C38.11"),
    M("xfer-imm-get-leases-raw", IMM, "                    yield self._schema.lease_serializer.unserialize(data)", "                    yield data", "C38.11"),
    M("xfer-mut-count-guard-le", MUT,
      "        elif (lease_number-4) < num_extra_leases:\n            offset = (extra_lease_offset\n                      + 4\n                      + (lease_number-4)*self.LEASE_SIZE)\n        else:\n            # must add",
      "        elif (lease_number-4) <= num_extra_leases:\n            offset = (extra_lease_offset\n                      + 4\n                      + (lease_number-4)*self.LEASE_SIZE)\n        else:\n            # must add", "C38.11"),
    M("xfer-mut-count-guard-5", MUT,
      "        elif (lease_number-4) < num_extra_leases:\n            offset = (extra_lease_offset\n                      + 4\n                      + (lease_number-4)*self.LEASE_SIZE)\n        else:\n            # must add",
      "        elif (lease_number-5) < num_extra_leases:\n            offset = (extra_lease_offset\n                      + 4\n                      + (lease_number-4)*self.LEASE_SIZE)\n        else:\n            # must add", "C38.11"),
    M("xfer-mut-count-never-grows", MUT, "            add_extra_lease = True\n", "            add_extra_lease = False\n", "C38.11"),
    M("xfer-mut-count-plus-2", MUT, "            self._write_num_extra_leases(f, num_extra_leases+1)", "            self._write_num_extra_leases(f, num_extra_leases+2)", "C38.11"),
    M("xfer-mut-reader-returns-none", MUT, "        if lease_info.owner_num == 0:\n            return None\n        return lease_info\n",
      "        if lease_info.owner_num == 0:\n            return None\n        return None\n", "C38.11"),
    M("xfer-mut-reader-owner-inverted", MUT, "        if lease_info.owner_num == 0:\n            return None\n        return lease_info\n",
      "        if lease_info.owner_num != 0:\n            return None\n        return lease_info\n", "C38.11"),
    M("xfer-mut-reader-owner-1-is-empty", MUT, "        if lease_info.owner_num == 0:\n            return None\n        return lease_info\n",
      "        if lease_info.owner_num <= 1:\n            return None\n        return lease_info\n", "C38.11"),
    M("xfer-mut-reader-valid-slot-rejected", MUT,
      "        elif (lease_number-4) < num_extra_leases:\n            offset = (extra_lease_offset\n                      + 4\n                      + (lease_number-4)*self.LEASE_SIZE)\n        else:\n            raise IndexError",
      "        elif (lease_number-4) >= num_extra_leases:\n            offset = (extra_lease_offset\n                      + 4\n                      + (lease_number-4)*self.LEASE_SIZE)\n        else:\n            raise IndexError", "C38.11"),
    M("xfer-mut-slots-without-extra", MUT, "        return 4+num_extra_leases\n", "        return 4\n", "C38.11"),
    M("xfer-mut-read-offset-not-returned", MUT, "        (extra_lease_offset,) = struct.unpack(\">Q\", f.read(8))\n        return extra_lease_offset\n",
      "        (extra_lease_offset,) = struct.unpack(\">Q\", f.read(8))\n        return self.DATA_OFFSET\n", "C38.11"),
    M("xfer-hashed-unserialize-skips-codec", LS, "        return HashedLeaseInfo(self._from_data(data), self._hash_secret)", "        return HashedLeaseInfo(data, self._hash_secret)", "C38.11"),
    M("xfer-hashed-secrets-crossed", LS, "                renew_secret=cls._hash_secret(lease_info.renew_secret),\n                cancel_secret=cls._hash_secret(lease_info.cancel_secret),",
      "                renew_secret=cls._hash_secret(lease_info.cancel_secret),\n                cancel_secret=cls._hash_secret(lease_info.renew_secret),", "C38.11"),
    M("benign-xfer-mut-record-hoisted", MUT, "        assert f.tell() == offset\n        f.write(self._schema.lease_serializer.serialize(lease_info))\n        if add_extra_lease:",
      "        assert f.tell() == offset\n        record = self._schema.lease_serializer.serialize(lease_info)\n        f.write(record)\n        if add_extra_lease:", None),
    M("benign-xfer-mut-count-without-flag", MUT,
      "            add_extra_lease = True\n            offset = (extra_lease_offset\n                      + 4\n                      + (lease_number-4)*self.LEASE_SIZE)\n        f.seek(offset)\n        assert f.tell() == offset\n        f.write(self._schema.lease_serializer.serialize(lease_info))\n        if add_extra_lease:\n            # count the new record only once it is in the file: a record\n            # beyond the count is ignored, a count beyond the file is not.\n            self._write_num_extra_leases(f, num_extra_leases+1)\n",
      "            offset = (extra_lease_offset\n                      + 4\n                      + (lease_number-4)*self.LEASE_SIZE)\n            f.seek(offset)\n            f.write(self._schema.lease_serializer.serialize(lease_info))\n            self._write_num_extra_leases(f, 1 + num_extra_leases)\n            return\n        f.seek(offset)\n        assert f.tell() == offset\n        f.write(self._schema.lease_serializer.serialize(lease_info))\n", None),
    M("benign-xfer-mut-reader-inverted-branches", MUT, "        if lease_info.owner_num == 0:\n            return None\n        return lease_info\n",
      "        if not lease_info.owner_num == 0:\n            return lease_info\n        return None\n", None),
    M("benign-xfer-mut-reader-guard-commuted", MUT,
      "        elif (lease_number-4) < num_extra_leases:\n            offset = (extra_lease_offset\n                      + 4\n                      + (lease_number-4)*self.LEASE_SIZE)\n        else:\n            raise IndexError",
      "        elif num_extra_leases + 4 > lease_number:\n            offset = (extra_lease_offset\n                      + 4\n                      + (lease_number-4)*self.LEASE_SIZE)\n        else:\n            raise IndexError", None),
    M("benign-xfer-imm-add-lease-via-write-num", IMM, "            self._write_lease_record(f, num_leases, lease_info)\n            self._write_encoded_num_leases(f, new_lease_count)\n",
      "            self._write_lease_record(f, num_leases, lease_info)\n            self._write_num_leases(f, 1 + num_leases)\n", None),
    M("benign-xfer-imm-create-header-hoisted", IMM, "            with open(self.home, 'wb') as f:\n                f.write(self._schema.header(max_size))\n",
      "            header = schema.header(max_size)\n            with open(self.home, 'wb') as f:\n                f.write(header)\n", None),
    # ---- C38.12 immutable share offset table, per-version layout (survivors of the mutation sweep)
    M("lay-parse-version-test-flipped", LAY, "        if version == 1:\n            precondition(len(data) >= 0x24)\n", "        if version != 1:\n            precondition(len(data) >= 0x24)\n", "C38.12",
      note="v1 shares are read with the v2 table and vice versa"),
    M("lay-parse-v1-start", LAY, "            x = 0x0c\n            fieldsize = 0x4\n", "            x = 0x08\n            fieldsize = 0x4\n", "C38.12"),
    M("lay-parse-v2-width", LAY, "            x = 0x14\n            fieldsize = 0x8\n", "            x = 0x14\n            fieldsize = 0x4\n", "C38.12"),
    M("lay-satisfy-v1-struct", SHR, "            table_start = 0x0c\n            self._fieldsize = 0x4\n            self._fieldstruct = \"L\"\n",
      "            table_start = 0x0c\n            self._fieldsize = 0x4\n            self._fieldstruct = \"Q\"\n", "C38.12"),
    M("lay-satisfy-v2-start", SHR, "            table_start = 0x14\n            self._fieldsize = 0x8\n            self._fieldstruct = \"Q\"\n",
      "            table_start = 0x18\n            self._fieldsize = 0x8\n            self._fieldstruct = \"Q\"\n", "C38.12"),
    M("lay-desire-v2-start", SHR, "            table_start = 0x14\n            fieldsize = 0x8\n        offset_table_size", "            table_start = 0x0c\n            fieldsize = 0x8\n        offset_table_size", "C38.12"),
    M("lay-desire-version-test", SHR, "        if version == 1:\n            table_start = 0x0c\n            fieldsize = 0x4\n        elif version == 2:\n",
      "        if version == 2:\n            table_start = 0x0c\n            fieldsize = 0x4\n        elif version == 1:\n", "C38.12"),
    M("lay-writer-v2-uri-length-width", LAY, "    fieldsize = 8\n    fieldstruct = \">Q\"\n", "    fieldsize = 8\n    fieldstruct = \">L\"\n", "C38.12"),
    M("lay-writer-v2-data-start", LAY, "        x = 0x44\n        offsets['data'] = x\n", "        x = 0x24\n        offsets['data'] = x\n", "C38.12",
      note="the first block overwrites the tail of the v2 offset table"),
    M("lay-satisfy-names-order", SHR, "                                  'block_hashes',\n                                  'share_hashes',\n                                  'uri_extension',\n                                  ] ):",
      "                                  'share_hashes',\n                                  'block_hashes',\n                                  'uri_extension',\n                                  ] ):", "C38.12"),
    M("benign-lay-parse-decimal-reordered", LAY, "            x = 0x0c\n            fieldsize = 0x4\n", "            fieldsize = 4\n            x = 3 * fieldsize\n", None),
    M("benign-lay-parse-branches-swapped", LAY,
      "        if version == 1:\n            precondition(len(data) >= 0x24)\n            x = 0x0c\n            fieldsize = 0x4\n            fieldstruct = \">L\"\n        else:\n            precondition(len(data) >= 0x44)\n            x = 0x14\n            fieldsize = 0x8\n            fieldstruct = \">Q\"\n",
      "        if version == 2:\n            precondition(len(data) >= 0x44)\n            x = 0x14\n            fieldsize = 0x8\n            fieldstruct = \">Q\"\n        else:\n            precondition(len(data) >= 0x24)\n            x = 0x0c\n            fieldsize = 0x4\n            fieldstruct = \">L\"\n", None),
    M("benign-lay-writer-data-start-calcsize", LAY, "        x = 0x24\n        offsets['data'] = x\n", "        x = struct.calcsize(\">LLLLLLLLL\")\n        offsets['data'] = x\n", None),
    M("ueb-intkey-guard-inverted", URI, "        if intkey in d:\n            d[intkey] = int(d[intkey])", "        if intkey not in d:\n            d[intkey] = int(d[intkey])", "C38.6",
      note="sweep survivor: integer fields come back as bytes"),
    M("xfer-imm-get-leases-no-seek", IMM, "            f.seek(self._lease_offset)\n            for i in range(num_leases):", "            for i in range(num_leases):", "C38.11",
      note="sweep survivor: lease records are read from the start of the share data"),
    M("xfer-imm-get-leases-empty-only", IMM, "                if data:\n                    yield self._schema", "                if not data:\n                    yield self._schema", "C38.11"),
    M("xfer-mut-enumerate-none-only", MUT, "                if data is not None:\n                    yield i,data", "                if data is None:\n                    yield i,data", "C38.11"),
    M("benign-xfer-mut-enumerate-continue", MUT, "                data = self._read_lease_record(f, i)\n                if data is not None:\n                    yield i,data",
      "                lease = self._read_lease_record(f, i)\n                if lease is None:\n                    continue\n                yield i, lease", None),
    M("benign-xfer-imm-get-leases-break-on-eof", IMM, "                if data:\n                    yield self._schema.lease_serializer.unserialize(data)",
      "                if not data:\n                    continue\n                yield self._schema.lease_serializer.unserialize(data)", None),
    M("benign-ueb-intkey-guard-continue", URI, "        if intkey in d:\n            d[intkey] = int(d[intkey])", "        if intkey not in d:\n            continue\n        d[intkey] = int(d[intkey])", None),
    M("lay-parse-no-advance", LAY, "            x += fieldsize\n            self._offsets[field_name] = offset\n", "            self._offsets[field_name] = offset\n", "C38.12",
      note="sweep survivor: every offset is read from the position of the first"),
    M("lay-parse-advance-by-4", LAY, "            x += fieldsize\n            self._offsets[field_name] = offset\n", "            x += 4\n            self._offsets[field_name] = offset\n", "C38.12"),
    M("lay-satisfy-range-swapped", SHR, "self._received.pop(table_start, offset_table_size)", "self._received.pop(offset_table_size, table_start)", "C38.12",
      note="sweep survivor"),
    M("lay-satisfy-five-fields", SHR, "        offset_table_size = 6 * self._fieldsize\n", "        offset_table_size = 5 * self._fieldsize\n", "C38.12"),
    M("lay-desire-five-fields", SHR, "        offset_table_size = 6 * fieldsize\n        gotta_gotta_have_it.add(table_start, offset_table_size)", "        offset_table_size = 5 * fieldsize\n        gotta_gotta_have_it.add(table_start, offset_table_size)", "C38.12"),
    M("lay-satisfy-stored-by-wrong-index", SHR, "            offsets[field] = fields[i]\n", "            offsets[field] = fields[0]\n", "C38.12"),
    M("benign-lay-parse-tuple-target", LAY, "            offset = struct.unpack(fieldstruct, data[x:x+fieldsize])[0]\n            x += fieldsize\n",
      "            (offset,) = struct.unpack(fieldstruct, data[x:x+fieldsize])\n            x = fieldsize + x\n", None),
    M("benign-lay-satisfy-size-inlined", SHR, "        offset_table_size = 6 * self._fieldsize\n        table_s = self._received.pop(table_start, offset_table_size)",
      "        table_s = self._received.pop(table_start, self._fieldsize * 6)", None),
    # ---- C38.13 (= C25.10) the extra-lease block is moved intact when the container grows
    M("move-zero-old-block-after-copy", MUT, CCS_MOVE,
      "        f.seek(new_extra_lease_offset)\n        f.write(extra_lease_data)\n        f.flush()\n"
      "        self._write_extra_lease_offset(f, new_extra_lease_offset)\n\n"
      "        f.seek(old_extra_lease_offset)\n        f.write(b'\\x00' * leases_size)\n        f.flush()\n", "C38.13",
      note="seeded C38-D: old and new block overlap when the container grows by less than the block size; the zeroing wipes "
           "the count field and the first records of the copy"),
    M("move-scrub-old-block-last", MUT, CCS_MOVE,
      "        self._write_extra_lease_offset(f, new_extra_lease_offset)\n        f.seek(new_extra_lease_offset)\n"
      "        f.write(extra_lease_data)\n        scrub = bytes(len(extra_lease_data))\n        f.seek(old_extra_lease_offset)\n"
      "        f.write(scrub)\n", "C38.13", note="same effect, other spelling: pointer first, zeros built with bytes(n)"),
    M("move-copy-skipped-when-overlapping", MUT, "        f.seek(new_extra_lease_offset)\n        f.write(extra_lease_data)\n",
      "        if new_extra_lease_offset >= old_extra_lease_offset + leases_size:\n            f.seek(new_extra_lease_offset)\n"
      "            f.write(extra_lease_data)\n", "C38.13", note="the header points at a block that was never written"),
    M("move-records-without-count", MUT, CCS_READ,
      "        f.seek(old_extra_lease_offset + 4)\n        leases_size = num_extra_leases * self.LEASE_SIZE\n"
      "        extra_lease_data = f.read(leases_size)\n", "C38.13",
      note="the count field is left behind: the records are moved to where the count is expected"),
    M("move-header-keeps-old-offset", MUT, "        self._write_extra_lease_offset(f, new_extra_lease_offset)\n",
      "        self._write_extra_lease_offset(f, old_extra_lease_offset)\n", "C38.13"),
    M("benign-move-pointer-before-copy", MUT, CCS_MOVE,
      "        f.seek(old_extra_lease_offset)\n        f.write(b'\\x00' * leases_size)\n        f.flush()\n\n"
      "        self._write_extra_lease_offset(f, new_extra_lease_offset)\n        f.seek(new_extra_lease_offset)\n        f.write(extra_lease_data)\n", None),
    M("benign-move-zero-only-vacated-part", MUT, CCS_MOVE,
      "        f.seek(new_extra_lease_offset)\n        f.write(extra_lease_data)\n        self._write_extra_lease_offset(f, new_extra_lease_offset)\n"
      "        f.flush()\n        vacated = min(leases_size, new_extra_lease_offset - old_extra_lease_offset)\n"
      "        f.seek(old_extra_lease_offset)\n        f.write(b'\\x00' * vacated)\n", None,
      note="copy first is fine as long as only the part of the old block that the new one does not cover is zeroed"),
    M("benign-move-size-inlined", MUT, CCS_READ,
      "        start = old_extra_lease_offset\n        f.seek(start)\n        extra_lease_data = f.read(num_extra_leases * self.LEASE_SIZE + 4)\n"
      "        leases_size = len(extra_lease_data)\n", None),
    # ---- C38.13.12 / C38.13.5 (= C25.12 / C25.5) a stored hashed lease is written back with the secrets it was read with
    M("renew-override-removed-as-redundant", LEASE, H_RENEW, "", "C38.13.12",
      note="seeded C38-E: proxyForInterface forwards renew to the wrapped LeaseInfo; the bare result is hashed again on write"),
    M("renew-override-removed-reported-by-13-5-too", LEASE, H_RENEW, "", "C38.13.5"),
    M("renew-override-forwards-by-hand", LEASE, H_RENEW,
      "    def renew(self, new_expire_time):\n        return self._lease_info.renew(new_expire_time)\n\n", "C38.13.12"),
    M("renew-override-copies-the-wrapped-lease", LEASE, H_RENEW,
      "    def renew(self, new_expire_time):\n        renewed = attr.assoc(self._lease_info, _expiration_time=new_expire_time)\n"
      "        return renewed\n\n", "C38.13.12"),
    M("serializer-hashes-both-lease-types", LS, SER_HASH,
      SER_HASH.replace("isinstance(lease, LeaseInfo)", "isinstance(lease, (LeaseInfo, HashedLeaseInfo))"), "C38.13.12"),
    M("serializer-duck-types-the-lease", LS, SER_HASH, SER_HASH.replace("isinstance(lease, LeaseInfo)", "hasattr(lease, \"cancel_secret\")"),
      "C38.13.12"),
    M("renewed-record-rebuilt-from-stored-lease", MUT, "                        lease = lease.renew(new_expire_time)\n",
      "                        lease = LeaseInfo(lease.owner_num, renew_secret, lease.cancel_secret,\n"
      "                                          new_expire_time, lease.nodeid)\n", "C38.13.12"),
    M("renew-rehashes-inside-the-wrapper", LEASE, H_RENEW,
      "    def renew(self, new_expire_time):\n        inner = self._lease_info.renew(new_expire_time)\n"
      "        inner = attr.assoc(inner, _renew_secret=self._hash(inner.renew_secret))\n"
      "        return attr.assoc(self, _lease_info=inner)\n\n", "C38.13.5",
      note="stays in the wrapper but the stored H(s) becomes H(H(s)) in the record written back"),
    M("benign-renew-builds-new-wrapper", LEASE, H_RENEW,
      "    def renew(self, new_expire_time):\n        renewed = self._lease_info.renew(new_expire_time)\n"
      "        return HashedLeaseInfo(renewed, self._hash)\n\n", None),
    M("benign-renew-evolve-hoisted", LEASE, H_RENEW,
      "    def renew(self, new_expire_time):\n        renewed = super(HashedLeaseInfo, self).renew(new_expire_time)\n"
      "        return attr.evolve(self, lease_info=renewed)\n\n", None),
    M("benign-serializer-tests-for-wrapper", LS, SER_HASH,
      SER_HASH.replace("isinstance(lease, LeaseInfo)", "not isinstance(lease, HashedLeaseInfo)"), None),
    M("benign-renewed-lease-hoisted", IMM, "                    lease = lease.renew(new_expire_time)\n                    with open(self.home, 'rb+') as f:\n"
      "                        self._write_lease_record(f, i, lease)\n",
      "                    renewed = lease.renew(new_expire_time)\n                    with open(self.home, 'rb+') as f:\n"
      "                        self._write_lease_record(f, i, renewed)\n", None),
    # ---- C38.14 data-region writes stay below the extra-lease block
    M("data-gap-filled-before-growth", MUT, "            if self.DATA_OFFSET+offset+length > extra_lease_offset:\n",
      "            if offset > data_length:\n                f.seek(self.DATA_OFFSET+data_length)\n"
      "                f.write(b'\\x00'*(offset - data_length))\n                f.flush()\n"
      "            if self.DATA_OFFSET+offset+length > extra_lease_offset:\n", "C38.14",
      edits=[(MUT, "            if offset > data_length:\n                f.seek(self.DATA_OFFSET+data_length)\n"
              "                f.write(b'\\x00'*(offset - data_length))\n                f.flush()\n\n            new_data_length", "            new_data_length")],
      note="the zero fill runs over the extra-lease block, which is then moved as zeros"),
    M("data-gap-filled-to-lease-offset", MUT, "                f.write(b'\\x00'*(offset - data_length))\n",
      "                f.write(b'\\x00'*(extra_lease_offset - data_length))\n", "C38.14",
      note="'fill to the end of the container' without subtracting DATA_OFFSET: 468 zero bytes land on the extra-lease count and records"),
    M("data-growth-test-forgets-header", MUT, "            if self.DATA_OFFSET+offset+length > extra_lease_offset:\n",
      "            if offset+length > extra_lease_offset:\n", "C38.14",
      edits=[(MUT, "            assert self.DATA_OFFSET+offset+length <= extra_lease_offset\n", "")],
      note="with the assertion gone nothing stops a write of up to DATA_OFFSET bytes into the lease block"),
    M("benign-data-growth-test-hoisted", MUT, "            if self.DATA_OFFSET+offset+length > extra_lease_offset:\n",
      "            needed = length + offset\n            if not (extra_lease_offset - self.DATA_OFFSET >= needed):\n",
      None, edits=[(MUT, "                self._change_container_size(f, offset+length)\n", "                self._change_container_size(f, needed)\n")]),
    M("benign-data-gap-bytes-n", MUT, "                f.write(b'\\x00'*(offset - data_length))\n",
      "                gap = offset - data_length\n                f.write(bytes(gap))\n", None),
    M("benign-data-grow-on-exact-fit", MUT, "            if self.DATA_OFFSET+offset+length > extra_lease_offset:\n",
      "            if self.DATA_OFFSET+offset+length >= extra_lease_offset:\n", None,
      note="growing on an exact fit moves the block onto itself; the write is still covered"),
    M("benign-refactor-data-write-helpers-faithful", MUT, WSD_OLD, _wsd_helpers(), None, edits=WSD_REST,
      note="seeded C23-I done faithfully: the container is enlarged by a helper before another helper zero-fills the gap"),
    M("benign-refactor-data-write-helpers-keywords", MUT, WSD_OLD, _wsd_helpers(fill_call="self._zero_fill(f, end=offset, start=data_length)"), None,
      note="the helper's parameters are bound by keyword at the call site"),
    M("refactor-helpers-fill-before-growth", MUT, WSD_OLD, _wsd_helpers(order=("fill", "ensure")), "C38.14", edits=WSD_REST,
      note="seeded C23-I as delivered: the zero fill (inside _zero_fill) runs before _ensure_container_holds enlarged the container; "
           "it lands on the extra-lease block"),
    M("refactor-helpers-growth-test-forgets-header", MUT, WSD_OLD,
      _wsd_helpers(grow_test="data_end > self._read_extra_lease_offset(f)", keep_assert=False), "C38.14",
      note="the growth test inside the helper ignores DATA_OFFSET and the assertion is gone: a write may end inside the lease block"),
    M("refactor-helpers-fill-overshoots", MUT, WSD_OLD, _wsd_helpers(fill_call="self._zero_fill(f, data_length, self._read_extra_lease_offset(f))"),
      "C38.14", note="the helper is asked to fill up to the lease offset (DATA_OFFSET not subtracted): the zeros cover the lease block"),
    M("benign-refactor-lease-generators-faithful", MUT, ENUM_OLD, _enum_generators(), None,
      note="seeded C25-I done faithfully: _enumerate_leases is a generator expression over enumerate(_iter_lease_slots(f)) that "
           "keeps the slot number and skips empty slots"),
    M("benign-refactor-lease-generators-loop", MUT, ENUM_OLD, _enum_generators(
        enum="for slot, lease in enumerate(self._iter_lease_slots(f)):\n            if lease is None:\n                continue\n"
             "            yield slot, lease"), None,
      note="the same as a loop over the helper generator with an early continue"),
    M("refactor-generators-position-not-slot", MUT, ENUM_OLD, _enum_generators(enum="return enumerate(self._iter_leases(f))"), "C38.11",
      note="seeded C25-I as delivered: the number handed out is the position among occupied leases; the record written back under "
           "that number replaces another slot's record"),
    M("refactor-generators-empty-slots-kept", MUT, ENUM_OLD, _enum_generators(enum="return enumerate(self._iter_lease_slots(f))"), "C38.11",
      note="no filter on None: empty slots are handed out as leases"),
    M("refactor-generators-header-slots-only", MUT, ENUM_OLD, _enum_generators(slots="range(4)"), "C38.11",
      note="the helper generator visits the four header slots only: stored extra leases are never read back"),
    M("refactor-generators-first-slot-record", MUT, ENUM_OLD, _enum_generators(item="self._read_lease_record(f, 0)"), "C38.11",
      note="the helper generator reads slot 0 for every slot"),
    # ---- benign
    M("benign-lease-reader-inlined", LEASE, "        values = struct.unpack(IMMUTABLE_FORMAT, data)\n        return cls(nodeid=None, **dict(zip(names, values)))",
      "        return cls(nodeid=None, **dict(zip(names, struct.unpack(IMMUTABLE_FORMAT, data))))", None),
    M("benign-imm-decimal-and-commuted", IMM, "            self._lease_offset = max_size + 0x0c\n", "            self._lease_offset = 12 + max_size\n", None),
    M("benign-imm-locals-renamed", IMM,
      "                filesize = os.path.getsize(self.home)\n                (version, unused, num_leases) = struct.unpack(\">LLL\", f.read(0xc))\n            self._schema = schema_from_version(version)\n            if self._schema is None:\n                raise UnknownImmutableContainerVersionError(filename, version)\n            self._num_leases = num_leases\n            self._lease_offset = filesize - (num_leases * self.LEASE_SIZE)\n            self._length = filesize - 0xc - (num_leases * self.LEASE_SIZE)",
      "                size = os.path.getsize(self.home)\n                (ver, _ignored, n) = struct.unpack(\">LLL\", f.read(12))\n            self._schema = schema_from_version(ver)\n            if self._schema is None:\n                raise UnknownImmutableContainerVersionError(filename, ver)\n            self._num_leases = n\n            leases = n * self.LEASE_SIZE\n            self._lease_offset = size - leases\n            self._length = size - leases - 12", None),
    M("benign-mut-const-literal", MUT, '    DATA_LENGTH_OFFSET = struct.calcsize(">32s20s32s")', "    DATA_LENGTH_OFFSET = 32 + 20 + 32", None),
    M("benign-mut-slot-commuted", MUT,
      "            offset = self.HEADER_SIZE + lease_number * self.LEASE_SIZE\n        elif (lease_number-4) < num_extra_leases:\n            offset = (extra_lease_offset\n                      + 4\n                      + (lease_number-4)*self.LEASE_SIZE)\n        else:\n            raise IndexError",
      "            offset = lease_number * self.LEASE_SIZE + self.HEADER_SIZE\n        elif (lease_number-4) < num_extra_leases:\n            offset = (lease_number-4)*self.LEASE_SIZE + extra_lease_offset + 4\n        else:\n            raise IndexError", None),
    M("benign-mut-header-format-name", MUS, '    fixed_header = struct.pack(\n        ">32s20s32sQQ",', "    fixed_header = struct.pack(\n        _HEADER_FORMAT,", None),
    M("benign-netstring-reader-commuted", NS, "        position = colon+1+length\n", "        end = 1 + length + colon\n        position = end\n", None),
    M("benign-ueb-reader-inlined", URI, "        number = data[:colon]\n        length = int(number)\n", "        length = int(data[:colon])\n", None),
    M("benign-ueb-key-decode", URI, '        d[str(key, "utf-8")] = value\n', '        name = key.decode("utf-8")\n        d[name] = value\n', None),
    M("benign-netstring-writer-spelled-out", NS, '    return b"%d:%s," % (len(s), s,)', '    n = len(s)\n    return b"%d:" % (n,) + s + b","', None),
    M("benign-ueb-int-via-str", URI, '            value = b"%d" % value', "            value = str(value).encode('ascii')", None),
    M("benign-count-bound-ge", IMM, "    if struct.calcsize(fixed) > 4:", "    if struct.calcsize(fixed) >= 5:", None),
    M("benign-ver-imm-not-in", LAY, "        if version != 1 and version != 2:\n", "        if version not in (1, 2):\n", None),
    M("benign-ver-imm-renamed-demorgan", LAY, "        (version,) = struct.unpack(\">L\", data[0:4])\n        if version != 1 and version != 2:\n            raise ShareVersionIncompatible(version)\n\n        if version == 1:\n",
      "        ver = struct.unpack(\">L\", data[:4])[0]\n        version = ver\n        if not (ver == 1 or ver == 2):\n            raise ShareVersionIncompatible(ver)\n\n        if 1 == ver:\n", None),
    M("benign-ver-imm-table-lookup", LAY, "        if version != 1 and version != 2:\n            raise ShareVersionIncompatible(version)\n",
      "        layouts = {1: 0x24, 2: 0x44}\n        try:\n            layouts[version]\n        except KeyError:\n            raise ShareVersionIncompatible(version)\n", None,
      note="membership decided by a dict literal: the miss leaves by KeyError"),
    M("benign-ver-desire-assert-in", SHR, "        assert 1 <= version <= 2, \"can't get here, version=%d\" % version\n", "        assert version in (1, 2), \"can't get here, version=%d\" % version\n", None),
    M("benign-ver-share-reordered", SHR,
      "        if version == 1:\n            table_start = 0x0c\n            self._fieldsize = 0x4\n            self._fieldstruct = \"L\"\n        elif version == 2:\n            table_start = 0x14\n            self._fieldsize = 0x8\n            self._fieldstruct = \"Q\"\n        else:\n",
      "        if version == 2:\n            table_start = 0x14\n            self._fieldsize = 0x8\n            self._fieldstruct = \"Q\"\n        elif version == 1:\n            table_start = 0x0c\n            self._fieldsize = 0x4\n            self._fieldstruct = \"L\"\n        else:\n", None),
    M("benign-ver-sdmf-named-constant", MLAY, "    if version != 0:\n        raise UnknownVersionError(", "    if not version == SDMF_VERSION:\n        raise UnknownVersionError(", None),
    M("benign-schema-lookup-commuted", IMS, "        if schema.version == version:\n", "        if version == schema.version:\n", None),
    M("benign-imm-open-local-then-store", IMM, "            self._schema = schema_from_version(version)\n            if self._schema is None:\n                raise UnknownImmutableContainerVersionError(filename, version)\n",
      "            found = schema_from_version(version)\n            if found is None:\n                raise UnknownImmutableContainerVersionError(filename, version)\n            self._schema = found\n", None),
    M("benign-mut-valid-header-hoisted", MUT, "        return schema_from_header(header) is not None\n", "        found = schema_from_header(header)\n        return not (found is None)\n", None),
    M("benign-ueb-int-test-double-negation", URI, "        if isinstance(value, int):\n            value = b\"%d\" % value", "        if not (not isinstance(value, int)):\n            value = b\"%d\" % value", None),
    M("benign-mut-header-pieces-renamed", MUS, "    blank_leases = b\"\\x00\" * LeaseInfo().mutable_size() * 4\n    extra_lease_count = struct.pack(\">L\", 0)\n\n    return b\"\".join([\n        fixed_header,\n        # share data will go in between the next two items eventually but\n        # for now there is none.\n        blank_leases,\n        extra_lease_count,\n    ])",
      "    slots = b\"\\x00\" * LeaseInfo().mutable_size() * 4\n    count = struct.pack(\">L\", 0)\n    container = b\"\".join([fixed_header, slots, count])\n    return container", None),
    M("benign-mut-slot-offset-renamed", MUT,
      "            offset = (extra_lease_offset\n                      + 4\n                      + (lease_number-4)*self.LEASE_SIZE)\n        else:\n            raise IndexError(\"No such lease number %d\" % lease_number)\n        f.seek(offset)\n        assert f.tell() == offset\n",
      "            where = (extra_lease_offset\n                      + 4\n                      + (lease_number-4)*self.LEASE_SIZE)\n        else:\n            raise IndexError(\"No such lease number %d\" % lease_number)\n        if lease_number < 4:\n            where = offset\n        f.seek(where)\n        assert f.tell() == where\n", None),
    # ---- vanished anchors
    M("vanish-header-reader", MUT, "    def _read_write_enabler_and_nodeid(self, f):", "    def _read_write_enabler_and_nodeidX(self, f):", "ANALYSIS-ERROR"),
    M("vanish-unpack-extension", URI, "def unpack_extension(data):", "def unpack_extensionX(data):", "ANALYSIS-ERROR"),
    M("vanish-parse-offsets", LAY, "    def _parse_offsets(self, data):", "    def _parse_offsetsX(self, data):", "ANALYSIS-ERROR"),
    M("vanish-schema-from-version", IMS, "def schema_from_version(version):", "def schema_from_versionX(version):", "ANALYSIS-ERROR"),
]
