from .runner import M

LEASE = "src/allmydata/storage/lease.py"
LS = "src/allmydata/storage/lease_schema.py"
IMM = "src/allmydata/storage/immutable.py"
IMS = "src/allmydata/storage/immutable_schema.py"
MUT = "src/allmydata/storage/mutable.py"
MUS = "src/allmydata/storage/mutable_schema.py"
NS = "src/allmydata/util/netstring.py"
URI = "src/allmydata/uri.py"
ENC = "src/allmydata/immutable/encode.py"

PINNED = "test_netstring exercises this function, so the utility tests also notice; kept to show the rule sees it"

MUTANTS = [
    # ---- C38.1 lease records
    M("lease-reader-names-swapped", LEASE,
      '            "renew_secret",\n            "cancel_secret",\n            "expiration_time",\n        ]',
      '            "cancel_secret",\n            "renew_secret",\n            "expiration_time",\n        ]', "C38.1"),
    M("lease-mutable-pack-order", LEASE,
      "                           self.owner_num,\n                           int(self._expiration_time),\n                           self.renew_secret, self.cancel_secret,\n                           self.nodeid)",
      "                           int(self._expiration_time),\n                           self.owner_num,\n                           self.renew_secret, self.cancel_secret,\n                           self.nodeid)", "C38.1"),
    M("lease-format-64bit-expiry", LEASE, 'IMMUTABLE_FORMAT = ">L32s32sL"', 'IMMUTABLE_FORMAT = ">L32s32sQ"', "C38.1"),
    M("lease-expiration-not-int", LEASE,
      "                           self.renew_secret, self.cancel_secret,\n                           int(self._expiration_time))",
      "                           self.renew_secret, self.cancel_secret,\n                           self._expiration_time)", "C38.1"),
    M("lease-unpack-other-format", LEASE, "        values = struct.unpack(MUTABLE_FORMAT, data)\n        return cls(**dict(zip(names, values)))",
      "        values = struct.unpack(\">LL32s32s20s\"[:-3], data[:72])\n        return cls(**dict(zip(names, values)))", "C38.1"),
    M("serializer-v2-mutable-immutable-writer", LS, "v2_mutable = HashedLeaseSerializer(\n    HashedLeaseInfo.to_mutable_data,",
      "v2_mutable = HashedLeaseSerializer(\n    HashedLeaseInfo.to_immutable_data,", "C38.1"),
    M("schema-v2-cleartext-serializer", IMS, "    _Schema(version=2, lease_serializer=v2_immutable),", "    _Schema(version=2, lease_serializer=v1_immutable),", "C38.1"),
    M("hashed-secret-64-bytes", LS, "        return blake2b(secret, digest_size=32, encoder=RawEncoder)",
      "        return blake2b(secret, digest_size=64, encoder=RawEncoder)", "C38.1"),
    M("hashed-secret-hex", LS, "        return blake2b(secret, digest_size=32, encoder=RawEncoder)",
      "        return blake2b(secret, digest_size=32)", "C38.1"),
    M("lease-size-literal-stale", MUT, '    LEASE_SIZE = struct.calcsize(">LL32s32s20s")\n    assert LEASE_SIZE == 92\n',
      '    LEASE_SIZE = struct.calcsize(">LL32s32s")\n', "C38.1"),
    # ---- C38.2 immutable header
    M("imm-length-not-saturated", IMS, '        return struct.pack(">LLL", self.version, min(2**32 - 1, max_size), 0)',
      '        return struct.pack(">LLL", self.version, max_size, 0)', "C38.2"),
    M("imm-header-wider-length", IMS, '        return struct.pack(">LLL", self.version, min(2**32 - 1, max_size), 0)',
      '        return struct.pack(">LQL", self.version, max_size, 0)', "C38.2"),
    M("imm-reader-fields-swapped", IMM,
      '                (version, unused, num_leases) = struct.unpack(">LLL", f.read(0xc))\n            self._schema = schema_from_version(version)',
      '                (version, num_leases, unused) = struct.unpack(">LLL", f.read(0xc))\n            self._schema = schema_from_version(version)', "C38.2"),
    M("imm-lease-count-offset", IMM, "        f.seek(0x08)\n        (num_leases,) = struct.unpack(", "        f.seek(0x04)\n        (num_leases,) = struct.unpack(", "C38.2"),
    M("imm-lease-offset-on-create", IMM, "            self._lease_offset = max_size + 0x0c\n", "            self._lease_offset = max_size\n", "C38.2"),
    M("imm-length-ignores-header", IMM, "            self._length = filesize - 0xc - (num_leases * self.LEASE_SIZE)",
      "            self._length = filesize - (num_leases * self.LEASE_SIZE)", "C38.2"),
    M("imm-count-bound-8", IMM, "    if struct.calcsize(fixed) > 4:", "    if struct.calcsize(fixed) > 8:", "C38.2"),
    M("imm-data-offset", IMM, "        self._data_offset = 0xc\n", "        self._data_offset = 0x8\n", "C38.2"),
    M("imm-record-offset", IMM, "        offset = self._lease_offset + lease_number * self.LEASE_SIZE\n",
      "        offset = self._lease_offset + lease_number * self._lease_count_size\n", "C38.2"),
    # ---- C38.3 mutable header
    M("mut-header-enabler-nodeid-swapped", MUS, "        magic,\n        nodeid,\n        write_enabler,\n", "        magic,\n        write_enabler,\n        nodeid,\n", "C38.3"),
    M("mut-hop-args-swapped", MUS, "        return _header(self._magic, _EXTRA_LEASE_OFFSET, nodeid, write_enabler)",
      "        return _header(self._magic, _EXTRA_LEASE_OFFSET, write_enabler, nodeid)", "C38.3"),
    M("mut-create-args-swapped", MUT, "            f.write(self._schema.header(my_nodeid, write_enabler))", "            f.write(self._schema.header(write_enabler, my_nodeid))", "C38.3"),
    M("mut-reader-returns-swapped", MUT, "        return (write_enabler, write_enabler_nodeid)", "        return (write_enabler_nodeid, write_enabler)", "C38.3"),
    M("mut-reader-targets-swapped", MUT, "         write_enabler_nodeid, write_enabler,\n         data_length, extra_least_offset) = \\",
      "         write_enabler, write_enabler_nodeid,\n         data_length, extra_least_offset) = \\", "C38.3"),
    M("mut-extra-lease-offset-const", MUT, "    EXTRA_LEASE_OFFSET = DATA_LENGTH_OFFSET + 8\n", "    EXTRA_LEASE_OFFSET = DATA_LENGTH_OFFSET + 4\n", "C38.3"),
    M("mut-data-length-32bit", MUT, '        f.write(struct.pack(">Q", data_length))', '        f.write(struct.pack(">L", data_length))', "C38.3"),
    M("mut-reader-slot-formula", MUT,
      "            offset = (extra_lease_offset\n                      + 4\n                      + (lease_number-4)*self.LEASE_SIZE)\n        else:\n            raise IndexError",
      "            offset = (extra_lease_offset\n                      + (lease_number-4)*self.LEASE_SIZE)\n        else:\n            raise IndexError", "C38.3"),
    M("mut-initial-extra-offset", MUS, "_EXTRA_LEASE_OFFSET = _HEADER_SIZE + 4 * LeaseInfo().mutable_size()", "_EXTRA_LEASE_OFFSET = _HEADER_SIZE", "C38.3"),
    M("mut-slot-guard", MUT,
      "        if lease_number < 4:\n            offset = self.HEADER_SIZE + lease_number * self.LEASE_SIZE\n        elif (lease_number-4) < num_extra_leases:\n            offset = (extra_lease_offset\n                      + 4\n                      + (lease_number-4)*self.LEASE_SIZE)\n        else:\n            # must add",
      "        if lease_number <= 4:\n            offset = self.HEADER_SIZE + lease_number * self.LEASE_SIZE\n        elif (lease_number-4) < num_extra_leases:\n            offset = (extra_lease_offset\n                      + 4\n                      + (lease_number-4)*self.LEASE_SIZE)\n        else:\n            # must add", "C38.3"),
    M("mut-three-blank-slots", MUS, '    blank_leases = b"\\x00" * LeaseInfo().mutable_size() * 4', '    blank_leases = b"\\x00" * LeaseInfo().mutable_size() * 3', "C38.3"),
    M("mut-extra-count-16bit", MUT, '        f.write(struct.pack(">L", num_leases))', '        f.write(struct.pack(">H", num_leases))', "C38.3"),
    # ---- C38.4 magic
    M("magic-v1-byte-changed", MUS, 'random_bytes = b"\\x75\\x09\\x44\\x03\\x8e"', 'random_bytes = b"\\x75\\x09\\x44\\x03\\x8f"', "C38.4"),
    M("magic-v2-tag-changed", MUS, '            b"allmydata_mutable_container_header",', '            b"allmydata_mutable_container_header_v2",', "C38.4"),
    M("magic-banner-without-version", MUS, 'human_readable = u"Tahoe mutable container v{:d}\\n".format(version).encode("ascii")',
      'human_readable = u"Tahoe mutable container v1\\n".encode("ascii")', "C38.4"),
    M("magic-prefix-compare", MUS, "        return candidate_magic[:len(self._magic)] == self._magic", "        return candidate_magic[:25] == self._magic[:25]", "C38.4"),
    M("magic-other-version", MUS, "        return cls(version, lease_serializer, magic=_magic(version))", "        return cls(version, lease_serializer, magic=_magic(1))", "C38.4"),
    # ---- C38.5 netstring
    M("netstring-reader-off-by-one", NS, "        string = data[colon+1:colon+1+length]", "        string = data[colon:colon+length]", "C38.5", note=PINNED),
    M("netstring-reader-no-trailer-check", NS, '        assert data[position] == b","[0], position\n', "", "C38.5", note=PINNED),
    M("netstring-writer-semicolon", NS, '    return b"%d:%s," % (len(s), s,)', '    return b"%d:%s;" % (len(s), s,)', ["C38.5", "C38.6"], note=PINNED),
    # ---- C38.6 UEB
    M("ueb-intkey-dropped", URI, "    for intkey in ('size', 'segment_size', 'num_segments',\n", "    for intkey in ('size', 'segment_size',\n", "C38.6"),
    M("ueb-writer-hex", URI, '            value = b"%d" % value', '            value = b"%x" % value', "C38.6"),
    M("ueb-reader-no-comma-check", URI, "        assert data[length:length+1] == b','\n", "", "C38.6"),
    M("ueb-reader-skips-wrong", URI, "        data = data[length+1:]\n", "        data = data[length:]\n", "C38.6"),
    M("ueb-key-regex-admits-colon", URI, "        assert re.match(br'^[a-zA-Z_\\-]+$', k)", "        assert re.match(br'^[a-zA-Z_:\\-]+$', k)", "C38.6"),
    M("ueb-entry-without-delimiter", URI, "        pieces.append(k + b':' + hashutil.netstring(value))", "        pieces.append(k + b'=' + hashutil.netstring(value))", "C38.6"),
    M("ueb-encoder-new-int-key", ENC, "        data['num_segments'] = self.num_segments\n", "        data['num_segments'] = self.num_segments\n        data['k'] = self.required_shares\n", "C38.6"),
    # ---- C38.7 base32 / base62 tables (round trips of both codecs are also exercised by test_base32/test_base62)
    M("base32-length-class-rejected", "src/allmydata/util/base32.py", "NUM_QS_LEGIT=(1, 0, 1, 0, 1, 1, 0, 1,)", "NUM_QS_LEGIT=(1, 0, 1, 0, 1, 0, 0, 1,)", "C38.7",
      note="hypothesis round-trip test in test_base32 also notices"),
    M("base32-last-char-too-strict", "src/allmydata/util/base32.py", "4-(NUM_QS_TO_NUM_BITS[lenmod8]%5)", "4-(NUM_QS_TO_NUM_BITS[lenmod8]%5)+2", "C38.7",
      note="rejects encoder output; test_base32 also notices"),
    M("base32-no-upper", "src/allmydata/util/base32.py", "    cs = cs.upper()\n", "", "C38.7", note="test_base32 also notices"),
    M("base62-radix", "src/allmydata/util/base62.py", "        numvalues *= 62\n", "        numvalues *= 64\n", "C38.7", note="test_base62 also notices"),
    M("base62-wrong-table", "src/allmydata/util/base62.py", "    return translate(bytes([c for c in reversed(chars)]), v2ctranstable)",
      "    return translate(bytes([c for c in reversed(chars)]), c2vtranstable)", "C38.7", note="test_base62 also notices"),
    # ---- C38.8: the finding on the unchanged tree; the one-character repair silences the rule
    M("repair-base32-last-char-table", "src/allmydata/util/base32.py", "4-(NUM_QS_TO_NUM_BITS[lenmod8]%5)", "5-(NUM_QS_TO_NUM_BITS[lenmod8]%5)", None,
      note="repair of the C38.8 finding: must be silent whether or not the finding is registered as known"),
    # ---- benign
    M("benign-lease-reader-inlined", LEASE, "        values = struct.unpack(IMMUTABLE_FORMAT, data)\n        return cls(nodeid=None, **dict(zip(names, values)))",
      "        return cls(nodeid=None, **dict(zip(names, struct.unpack(IMMUTABLE_FORMAT, data))))", None),
    M("benign-imm-decimal-and-commuted", IMM, "            self._lease_offset = max_size + 0x0c\n", "            self._lease_offset = 12 + max_size\n", None),
    M("benign-imm-locals-renamed", IMM,
      "                filesize = os.path.getsize(self.home)\n                (version, unused, num_leases) = struct.unpack(\">LLL\", f.read(0xc))\n            self._schema = schema_from_version(version)\n            if self._schema is None:\n                raise UnknownImmutableContainerVersionError(filename, version)\n            self._num_leases = num_leases\n            self._lease_offset = filesize - (num_leases * self.LEASE_SIZE)\n            self._length = filesize - 0xc - (num_leases * self.LEASE_SIZE)",
      "                size = os.path.getsize(self.home)\n                (ver, _ignored, n) = struct.unpack(\">LLL\", f.read(12))\n            self._schema = schema_from_version(ver)\n            if self._schema is None:\n                raise UnknownImmutableContainerVersionError(filename, ver)\n            self._num_leases = n\n            leases = n * self.LEASE_SIZE\n            self._lease_offset = size - leases\n            self._length = size - leases - 12", None),
    M("benign-mut-const-literal", MUT, '    DATA_LENGTH_OFFSET = struct.calcsize(">32s20s32s")', "    DATA_LENGTH_OFFSET = 32 + 20 + 32", None),
    M("benign-mut-slot-commuted", MUT,
      "            offset = self.HEADER_SIZE + lease_number * self.LEASE_SIZE\n        elif (lease_number-4) < num_extra_leases:\n            offset = (extra_lease_offset\n                      + 4\n                      + (lease_number-4)*self.LEASE_SIZE)\n        else:\n            raise IndexError",
      "            offset = lease_number * self.LEASE_SIZE + self.HEADER_SIZE\n        elif (lease_number-4) < num_extra_leases:\n            offset = (lease_number-4)*self.LEASE_SIZE + extra_lease_offset + 4\n        else:\n            raise IndexError", None),
    M("benign-mut-header-format-name", MUS, '    fixed_header = struct.pack(\n        ">32s20s32sQQ",', "    fixed_header = struct.pack(\n        _HEADER_FORMAT,", None),
    M("benign-netstring-reader-commuted", NS, "        position = colon+1+length\n", "        end = 1 + length + colon\n        position = end\n", None),
    M("benign-ueb-reader-inlined", URI, "        number = data[:colon]\n        length = int(number)\n", "        length = int(data[:colon])\n", None),
    M("benign-ueb-key-decode", URI, '        d[str(key, "utf-8")] = value\n', '        name = key.decode("utf-8")\n        d[name] = value\n', None),
    M("benign-netstring-writer-spelled-out", NS, '    return b"%d:%s," % (len(s), s,)', '    n = len(s)\n    return b"%d:" % (n,) + s + b","', None),
    M("benign-ueb-int-via-str", URI, '            value = b"%d" % value', "            value = str(value).encode('ascii')", None),
    M("benign-count-bound-ge", IMM, "    if struct.calcsize(fixed) > 4:", "    if struct.calcsize(fixed) >= 5:", None),
    # ---- vanished anchors
    M("vanish-header-reader", MUT, "    def _read_write_enabler_and_nodeid(self, f):", "    def _read_write_enabler_and_nodeidX(self, f):", "ANALYSIS-ERROR"),
    M("vanish-unpack-extension", URI, "def unpack_extension(data):", "def unpack_extensionX(data):", "ANALYSIS-ERROR"),
]
