from .runner import M

F = "src/allmydata/frontends/sftpd.py"

MUTANTS = [
    # the original defect (repaired in /repo by a fix: commit) must be re-detected if it returns
    M("merge-end-shrinks", F, "                end = max(end, end1)\n", "                end = end1\n", "C39.1"),
    M("merge-end-min", F, "                end = max(end, end1)\n", "                end = min(end, end1)\n", "C39.1"),
    M("merge-break-off-by-one", F, "                if start1 > end:\n                    break\n", "                if start1 >= end1:\n                    break\n", "C39.1"),
    M("benign-merge-guarded", F, "                end = max(end, end1)\n", "                if end1 > end:\n                    end = end1\n", None),
    M("final-write-without-heap-check", F,
      "            if start >= next_downloaded:\n                # This and all remaining overwrites are after the data we just downloaded.\n                break\n",
      "            if start >= self.downloaded:\n                break\n", "C39.2"),
    M("prefix-write-wrong-length", F, "                self.f.write(data[:(start - self.downloaded)])", "                self.f.write(data[:(end - self.downloaded)])", "C39.2"),
    M("skip-without-advance", F,
      "                data = data[(end - self.downloaded):]\n                self._update_downloaded(end)\n",
      "                data = data[(end - self.downloaded):]\n", "C39.2"),
    M("skip-slice-from-start", F, "                data = data[(end - self.downloaded):]\n", "                data = data[(start - self.downloaded):]\n", "C39.2"),
    M("requeue-drops-return", F,
      "                heapq.heappush(self.overwrites, (next_downloaded, end))\n                self._update_downloaded(next_downloaded)\n                return\n",
      "                heapq.heappush(self.overwrites, (next_downloaded, end))\n                self._update_downloaded(next_downloaded)\n", "C39.2"),
    M("final-seek-zero", F, "        self.f.seek(self.downloaded)\n        self.f.write(data)\n        self._update_downloaded(next_downloaded)",
      "        self.f.seek(0)\n        self.f.write(data)\n        self._update_downloaded(next_downloaded)", "C39.2"),
    M("overwrite-not-recorded-at-boundary", F, "        if end > self.downloaded:\n            heapq.heappush(self.overwrites, (start, end))",
      "        if start > self.downloaded:\n            heapq.heappush(self.overwrites, (start, end))", "C39.3"),
    M("overwrite-no-zero-fill", F,
      "            self.f.seek(self.current_size)\n            self.f.write(b\"\\x00\" * (offset - self.current_size))\n            start = self.current_size\n",
      "            self.f.seek(offset)\n            start = offset\n", "C39.3"),
    M("overwrite-start-excludes-fill", F, "            start = self.current_size\n", "            start = offset\n", "C39.3"),
    M("overwrite-size-not-monotone", F, "        self.current_size = max(self.current_size, end)", "        self.current_size = end", "C39.3"),
    M("read-wait-too-short", F, "        needed = min(offset + length, self.download_size)", "        needed = min(offset, self.download_size)", "C39.4"),
    M("read-without-waiting", F, "        d = self.when_reached_or_failed(needed)\n", "        d = defer.succeed(None)\n", "C39.4"),
    M("waiter-released-early", F, "        if index <= self.downloaded:  # already reached successfully", "        if index <= self.download_size:  # already reached successfully", "C39.4"),
    M("milestone-fired-early", F, "            if next_ > milestone:\n                return\n", "            if next_ > self.download_size:\n                return\n", "C39.5"),
    M("milestone-extended-unconditionally", F, "            if start <= new_downloaded and end > milestone:\n", "            if end > milestone:\n", "C39.5"),
    M("done-too-early", F, "        if milestone >= self.download_size:\n            self.download_done(b\"reached download size\")",
      "        if milestone >= 0:\n            self.download_done(b\"reached download size\")", "C39.5"),
    M("shrink-without-truncate", F, "        if size < self.current_size or size < self.downloaded:\n            self.f.truncate(size)\n",
      "        if size < self.downloaded:\n            self.f.truncate(size)\n", "C39.6"),
    M("grow-without-zero-fill", F,
      "        if size > self.current_size:\n            self.overwrite(self.current_size, b\"\\x00\" * (size - self.current_size))\n", "", "C39.6"),
    M("download-size-not-clamped", F, "        if size < self.download_size:\n            self.download_size = size\n", "", "C39.6"),
    # ---- added after the mutation sweep
    M("chunk-dropped-while-downloading", F, "        if self.downloaded >= self.download_size:\n            return\n\n        next_downloaded",
      "        if self.downloaded < self.download_size:\n            return\n\n        next_downloaded", "C39.2"),
    M("chunk-not-clipped-after-truncate", F, "            data = data[:(self.download_size - self.downloaded)]\n", "            pass\n", "C39.2"),
    M("requeue-without-advance", F,
      "                heapq.heappush(self.overwrites, (next_downloaded, end))\n                self._update_downloaded(next_downloaded)\n",
      "                heapq.heappush(self.overwrites, (next_downloaded, end))\n", "C39.2"),
    M("benign-closed-check-merged", F, "        if self.is_closed:\n            return\n\n        if self.downloaded >= self.download_size:\n            return\n",
      "        if self.is_closed or self.downloaded >= self.download_size:\n            return\n", None),
    M("benign-ge-flip", F, "            if start >= next_downloaded:\n", "            if not (start < next_downloaded):\n", None),
    M("benign-rename-milestone-var", F, "            (next_, d) = self.milestones[0]\n            if next_ > milestone:",
      "            (when_, d) = self.milestones[0]\n            next_ = when_\n            if when_ > milestone:", None),
    # ---- added after the second mutation sweep (gap review)
    M("merge-loop-guard-always-true", F, "            while len(self.overwrites) > 0:\n                (start1, end1) = self.overwrites[0]",
      "            while len(self.overwrites) >= 0:\n                (start1, end1) = self.overwrites[0]", "C39.7"),
    M("merge-loop-guard-negated", F, "            while len(self.overwrites) > 0:\n                (start1, end1) = self.overwrites[0]",
      "            while not (len(self.overwrites) > 0):\n                (start1, end1) = self.overwrites[0]", "C39.7"),
    M("milestone-loop-unguarded", F, "        while len(self.milestones) > 0:\n            (next_, d) = self.milestones[0]\n            if next_ > milestone:",
      "        while True:\n            (next_, d) = self.milestones[0]\n            if next_ > milestone:", "C39.7"),
    M("overwrites-top-unguarded", F,
      "        if len(self.overwrites) > 0:\n            (start, end) = self.overwrites[0]\n            if start <= new_downloaded and end > milestone:\n                milestone = end\n",
      "        (start, end) = self.overwrites[0]\n        if start <= new_downloaded and end > milestone:\n            milestone = end\n", "C39.7"),
    M("milestone-not-popped", F, "            heapq.heappop(self.milestones)\n            eventually_callback(d)(b\"reached\")",
      "            eventually_callback(d)(b\"reached\")", "C39.7"),
    M("read-clip-inverted", F, "        if offset + length > self.current_size:\n            length = self.current_size - offset",
      "        if offset + length < self.current_size:\n            length = self.current_size - offset", "C39.4"),
    M("read-clip-unconditional", F, "        if offset + length > self.current_size:\n            length = self.current_size - offset\n            if noisy:",
      "        if True:\n            length = self.current_size - offset\n            if noisy:", "C39.4"),
    M("read-clip-removed", F,
      "        if offset + length > self.current_size:\n            length = self.current_size - offset\n            if noisy: self.log(\"truncating read to %r bytes\" % (length,), level=NOISY)\n",
      "", "C39.4"),
    M("read-eof-check-inverted", F, "        if offset >= self.current_size:\n            def _eof()", "        if offset < self.current_size:\n            def _eof()", "C39.4"),
    M("size-change-always-declares-done", F, "        if self.downloaded >= self.download_size:\n            self.download_done(b\"size changed\")",
      "        self.download_done(b\"size changed\")", "C39.6"),
    M("size-change-done-inverted", F, "        if self.downloaded >= self.download_size:\n            self.download_done(b\"size changed\")",
      "        if self.downloaded < self.download_size:\n            self.download_done(b\"size changed\")", "C39.6"),
    M("benign-log-between-seek-and-write", F, "        self.f.seek(self.downloaded)\n        self.f.write(data)\n        self._update_downloaded(next_downloaded)",
      "        self.f.seek(self.downloaded)\n        if noisy: self.log(\"final write\", level=NOISY)\n        self.f.write(data)\n        if noisy: self.log(\"written\", level=NOISY)\n        self._update_downloaded(next_downloaded)", None),
    M("benign-chunk-end-hoisted", F, "        next_downloaded = self.downloaded + len(data)\n",
      "        chunk_end = self.downloaded + len(data)\n        next_downloaded = chunk_end\n", None),
    M("benign-log-between-skip-and-advance", F, "                data = data[(end - self.downloaded):]\n                self._update_downloaded(end)\n",
      "                data = data[(end - self.downloaded):]\n                if noisy: self.log(\"skipped to %r\" % (end,), level=NOISY)\n                self._update_downloaded(end)\n", None),
    M("benign-log-before-requeue-return", F, "                self._update_downloaded(next_downloaded)\n                return\n",
      "                self._update_downloaded(next_downloaded)\n                if noisy: self.log(\"region covers the rest of the chunk\", level=NOISY)\n                return\n", None),
    M("benign-log-between-eof-seek-and-zero-fill", F, "            self.f.seek(self.current_size)\n            self.f.write(b\"\\x00\" * (offset - self.current_size))",
      "            self.f.seek(self.current_size)\n            gap = offset - self.current_size\n            self.f.write(b\"\\x00\" * gap)", None),
    M("benign-clip-ge", F, "        if offset + length > self.current_size:\n            length =", "        if offset + length >= self.current_size:\n            length =", None),
    M("benign-clip-mirrored", F, "        if offset + length > self.current_size:\n            length =", "        if self.current_size < offset + length:\n            length =", None),
    M("benign-heap-truthiness", F, "        while len(self.overwrites) > 0:\n            (start, end) = self.overwrites[0]\n            if start >= next_downloaded:",
      "        while self.overwrites:\n            (start, end) = self.overwrites[0]\n            if start >= next_downloaded:", None),
    M("benign-milestones-ne-zero", F, "        while len(self.milestones) > 0:\n            (next_, d) = self.milestones[0]\n            if next_ > milestone:",
      "        while len(self.milestones) != 0:\n            (next_, d) = self.milestones[0]\n            if next_ > milestone:", None),
    M("benign-done-check-mirrored", F, "        if self.downloaded >= self.download_size:\n            self.download_done(b\"size changed\")",
      "        if not (self.download_size > self.downloaded):\n            self.download_done(b\"size changed\")", None),
    M("benign-pop-after-release", F, "            heapq.heappop(self.milestones)\n            eventually_callback(d)(b\"reached\")",
      "            eventually_callback(d)(b\"reached\")\n            heapq.heappop(self.milestones)", None),
    M("benign-eof-return-hoisted", F, "            return defer.execute(_eof)\n", "            res = defer.execute(_eof)\n            return res\n", None),
    M("benign-break-after-pass", F, "                if start1 > end:\n                    break\n", "                if start1 > end:\n                    pass\n                    break\n", None),
    M("vanish-write", F, "    def write(self, data):\n        if noisy: self.log(\".write(<data", "    def write_(self, data):\n        if noisy: self.log(\".write(<data", "ANALYSIS-ERROR"),
    # ---- C39.8 / C39.9 (seeded C39-D): GeneralSFTPFile - the commit decision of close() and the queued writes
    M("changed-flag-set-in-queued-write", F, "        self.has_changed = True\n\n        # Note that we return without waiting", "        # Note that we return without waiting", "C39.8",
      edits=[(F, "            self.consumer.overwrite(write_offset, data)\n", "            self.consumer.overwrite(write_offset, data)\n            self.has_changed = True\n")]),
    M("changed-flag-only-once-consumer-exists", F, "        self.has_changed = True\n\n        # Note that we return without waiting",
      "        if self.consumer is not None:\n            self.has_changed = True\n\n        # Note that we return without waiting", "C39.8"),
    M("changed-flag-dropped", F, "        self.has_changed = True\n\n        # Note that we return without waiting", "        # Note that we return without waiting", "C39.8"),
    M("commit-skipped-before-consumer-exists", F, "        if abandoned or not has_changed:\n", "        if abandoned or not has_changed or self.consumer is None:\n", "C39.8"),
    M("commit-decision-inverted", F, "        if abandoned or not has_changed:\n", "        if abandoned or has_changed:\n", "C39.8"),
    M("changed-flag-reset-by-sync", F, "        d = defer.Deferred()\n        self.async_.addBoth(eventually_callback(d))\n",
      "        d = defer.Deferred()\n        self.has_changed = False\n        self.async_.addBoth(eventually_callback(d))\n", "C39.8"),
    M("write-accepted-on-handle-close-does-not-commit", F,
      "        if not (self.flags & FXF_WRITE):\n            def _denied(): raise createSFTPError(FX_PERMISSION_DENIED, \"file handle was not opened for writing\")\n            return defer.execute(_denied)\n\n        if self.closed:\n            def _closed(): raise createSFTPError(FX_BAD_MESSAGE, \"cannot write to a closed file handle\")",
      "        if not (self.flags & (FXF_WRITE | FXF_APPEND)):\n            def _denied(): raise createSFTPError(FX_PERMISSION_DENIED, \"file handle was not opened for writing\")\n            return defer.execute(_denied)\n\n        if self.closed:\n            def _closed(): raise createSFTPError(FX_BAD_MESSAGE, \"cannot write to a closed file handle\")",
      "C39.8"),
    M("benign-changed-flag-after-queueing", F, "        self.has_changed = True\n\n        # Note that we return without waiting", "        # Note that we return without waiting",
      None, edits=[(F, "        self.async_.addCallback(_write)\n", "        self.async_.addCallback(_write)\n        self.has_changed = True\n")]),
    M("benign-changed-flag-also-in-queued-write", F, "            self.consumer.overwrite(write_offset, data)\n",
      "            self.consumer.overwrite(write_offset, data)\n            self.has_changed = True\n", None),
    M("benign-commit-decision-reordered", F, "        if abandoned or not has_changed:\n", "        if not has_changed or abandoned:\n", None),
    M("benign-commit-decision-without-local", F, "        if abandoned or not has_changed:\n", "        if self.abandoned or not self.has_changed:\n", None),
    M("benign-write-queued-through-lambda", F, "        self.async_.addCallback(_write)\n", "        self.async_.addCallback(lambda ign: _write(ign))\n", None),
    M("vanish-commit-decision-deferred", F, "        def _commit(ign):\n            d2 = self.consumer.when_done()\n",
      "        def _commit(ign):\n            if not self.has_changed:\n                return None\n            d2 = self.consumer.when_done()\n", "ANALYSIS-ERROR"),
    M("commit-does-not-wait-for-download", F, "            d2 = self.consumer.when_done()\n", "            d2 = defer.succeed(None)\n", "C39.9"),
    M("commit-upload-started-synchronously", F, "                d2.addCallback(_add_file)\n", "                d2.addCallback(lambda ign: None)\n                return _add_file(None)\n", "C39.9"),
    M("commit-result-dropped", F, "            return d2\n\n        # If the file has been abandoned", "            return None\n\n        # If the file has been abandoned", "C39.9"),
    M("when-done-answers-at-once", F,
      "        d = defer.Deferred()\n        self.done.addCallback(lambda ign: eventually_callback(d)(self.done_status))\n        return d\n",
      "        return defer.succeed(self.done_status)\n", "C39.9"),
    M("when-done-fired-outside-done-callback", F,
      "        d = defer.Deferred()\n        self.done.addCallback(lambda ign: eventually_callback(d)(self.done_status))\n        return d\n",
      "        d = defer.Deferred()\n        eventually_callback(d)(self.done_status)\n        return d\n", "C39.9"),
    M("done-created-fired", F, "        self.done = defer.Deferred()\n", "        self.done = defer.succeed(None)\n", "C39.9"),
    M("benign-commit-deferred-renamed", F, "            d2 = self.consumer.when_done()\n", "            done_d = self.consumer.when_done()\n            d2 = done_d\n", None),
    M("benign-when-done-named-callback", F,
      "        d = defer.Deferred()\n        self.done.addCallback(lambda ign: eventually_callback(d)(self.done_status))\n        return d\n",
      "        d = defer.Deferred()\n        def _fire(ign):\n            eventually_callback(d)(self.done_status)\n        self.done.addCallback(_fire)\n        return d\n", None),
    M("benign-add-file-as-lambda", F, "                d2.addCallback(_add_file)\n", "                d2.addCallback(lambda ign: _add_file(ign))\n", None),
    M("write-callback-never-queued", F, "        self.async_.addCallback(_write)\n", "", "C39.8"),
    M("write-callback-queued-as-errback-only", F, "        self.async_.addCallback(_write)\n", "        self.async_.addErrback(_write)\n", "C39.8"),
    M("mutable-upload-not-chained", F, "                d2.addCallback(lambda ign: self.filenode.overwrite(MutableFileHandle(self.consumer.get_file())))\n",
      "                if noisy: self.log(\"mutable commit\", level=NOISY)\n", "C39.9"),
    M("immutable-upload-not-chained", F, "                d2.addCallback(_add_file)\n", "                if noisy: self.log(\"immutable commit\", level=NOISY)\n", "C39.9"),
    # ---- setAttrs(size): a queued size change is a change as well (defect of the original tree, repaired by a fix: commit)
    M("size-change-not-marked", F, "        if size is not None:\n            # like writeChunk: close() decides whether to commit when it is called, which\n            # may be before the queued _set below has run\n            self.has_changed = True\n\n        d = defer.Deferred()\n        def _set(ign):\n", "        d = defer.Deferred()\n        def _set(ign):\n", "C39.8"),
    M("size-change-marked-under-truthiness", F, "        if size is not None:\n            # like writeChunk: close() decides whether to commit when it is called, which\n            # may be before the queued _set below has run\n            self.has_changed = True\n\n        d = defer.Deferred()\n        def _set(ign):\n",
      "        if size:\n            self.has_changed = True\n\n        d = defer.Deferred()\n        def _set(ign):\n", "C39.8"),
    M("size-change-marked-only-in-queued-set", F, "        if size is not None:\n            # like writeChunk: close() decides whether to commit when it is called, which\n            # may be before the queued _set below has run\n            self.has_changed = True\n\n        d = defer.Deferred()\n        def _set(ign):\n", "        d = defer.Deferred()\n        def _set(ign):\n", "C39.8",
      edits=[(F, "                self.consumer.set_current_size(size)\n", "                self.consumer.set_current_size(size)\n                self.has_changed = True\n")]),
    M("size-rebound-after-mark", F, "        if size is not None:\n            # like writeChunk: close() decides whether to commit when it is called, which\n            # may be before the queued _set below has run\n            self.has_changed = True\n\n        d = defer.Deferred()\n        def _set(ign):\n",
      "        if size is not None:\n            self.has_changed = True\n        else:\n            size = attrs.get(\"length\", None)\n\n        d = defer.Deferred()\n        def _set(ign):\n", "C39.8"),
    M("size-guard-in-set-weaker-than-mark", F, "                self.consumer.set_current_size(size)\n",
      "                pass\n            if size is not None or only_if_at:\n                self.consumer.set_current_size(size or 0)\n", "C39.8"),
    M("benign-size-change-marked-unconditionally", F, "        if size is not None:\n            # like writeChunk: close() decides whether to commit when it is called, which\n            # may be before the queued _set below has run\n            self.has_changed = True\n\n        d = defer.Deferred()\n        def _set(ign):\n", "        self.has_changed = True\n\n        d = defer.Deferred()\n        def _set(ign):\n", None),
    M("benign-size-mark-else-branch", F, "        if size is not None:\n            # like writeChunk: close() decides whether to commit when it is called, which\n            # may be before the queued _set below has run\n            self.has_changed = True\n\n        d = defer.Deferred()\n        def _set(ign):\n",
      "        if size is None:\n            pass\n        else:\n            self.has_changed = True\n\n        d = defer.Deferred()\n        def _set(ign):\n", None),
    M("benign-size-mark-not-is-none", F, "        if size is not None:\n            # like writeChunk: close() decides whether to commit when it is called, which\n            # may be before the queued _set below has run\n            self.has_changed = True\n\n        d = defer.Deferred()\n        def _set(ign):\n",
      "        if not (size is None):\n            self.has_changed = True\n\n        d = defer.Deferred()\n        def _set(ign):\n", None),
    M("benign-size-mark-after-queueing", F, "        if size is not None:\n            # like writeChunk: close() decides whether to commit when it is called, which\n            # may be before the queued _set below has run\n            self.has_changed = True\n\n        d = defer.Deferred()\n        def _set(ign):\n", "        d = defer.Deferred()\n        def _set(ign):\n", None,
      edits=[(F, "        self.async_.addCallbacks(_set, eventually_errback(d))\n", "        self.async_.addCallbacks(_set, eventually_errback(d))\n        if size is not None:\n            self.has_changed = True\n")]),
]

# ---- C39.10 (seeded C39-F): the merge of consecutive overwrite records extracted into a helper method
_MERGE_INLINE = (
    "            heapq.heappop(self.overwrites)\n"
    "            while len(self.overwrites) > 0:\n"
    "                (start1, end1) = self.overwrites[0]\n"
    "                if start1 > end:\n"
    "                    break\n"
    "                end = max(end, end1)\n"
    "                heapq.heappop(self.overwrites)\n")
_NEXT_METHOD = "    def _update_downloaded(self, new_downloaded):\n"
_CALL_REGION = "            (start, end) = self._pop_merged_overwrite()\n"
_CALL_END = "            end = self._merge_following(end)\n"


def _helper(body):
    return body + "\n" + _NEXT_METHOD


def _X(name, call, helper, expect):
    return M(name, F, _MERGE_INLINE, call, expect, edits=[(F, _NEXT_METHOD, _helper(helper))])


MUTANTS += [
    # the seeded mechanism: the helper keeps the end of the LAST merged record
    _X("merge-helper-takes-last-end", _CALL_REGION,
       "    def _pop_merged_overwrite(self):\n"
       "        (start, end) = heapq.heappop(self.overwrites)\n"
       "        while len(self.overwrites) > 0 and self.overwrites[0][0] <= end:\n"
       "            (_, end) = heapq.heappop(self.overwrites)\n"
       "        return (start, end)\n", "C39.10"),
    # a different edit with the same effect: the caller pops, the helper merges the following records and assigns end1
    _X("merge-helper-assigns-end1", "            heapq.heappop(self.overwrites)\n" + _CALL_END,
       "    def _merge_following(self, end):\n"
       "        while len(self.overwrites) > 0:\n"
       "            (start1, end1) = self.overwrites[0]\n"
       "            if start1 > end:\n"
       "                break\n"
       "            end = end1\n"
       "            heapq.heappop(self.overwrites)\n"
       "        return end\n", "C39.10"),
    # the guard of the re-binding compares the wrong way round
    _X("merge-helper-guard-inverted", _CALL_REGION,
       "    def _pop_merged_overwrite(self):\n"
       "        (start, end) = heapq.heappop(self.overwrites)\n"
       "        while len(self.overwrites) > 0 and self.overwrites[0][0] <= end:\n"
       "            (_, end1) = heapq.heappop(self.overwrites)\n"
       "            if end1 < end:\n"
       "                end = end1\n"
       "        return (start, end)\n", "C39.10"),
    # the helper merges every pending record, adjoining or not: download data between two overwrites is skipped
    _X("merge-helper-merges-everything", _CALL_REGION,
       "    def _pop_merged_overwrite(self):\n"
       "        (start, end) = heapq.heappop(self.overwrites)\n"
       "        while len(self.overwrites) > 0:\n"
       "            (_, end1) = heapq.heappop(self.overwrites)\n"
       "            end = max(end, end1)\n"
       "        return (start, end)\n", "C39.10"),
    # the adjacency test is made against the record's end instead of its start
    _X("merge-helper-compares-record-end", _CALL_REGION,
       "    def _pop_merged_overwrite(self):\n"
       "        (start, end) = heapq.heappop(self.overwrites)\n"
       "        while len(self.overwrites) > 0 and self.overwrites[0][0] <= self.overwrites[0][1]:\n"
       "            (_, end1) = heapq.heappop(self.overwrites)\n"
       "            end = max(end, end1)\n"
       "        return (start, end)\n", "C39.10"),
    # write() pops the examined record AND the helper starts from the first record again
    _X("merge-helper-after-caller-pop", "            heapq.heappop(self.overwrites)\n" + _CALL_REGION,
       "    def _pop_merged_overwrite(self):\n"
       "        (start, end) = heapq.heappop(self.overwrites)\n"
       "        while len(self.overwrites) > 0 and self.overwrites[0][0] <= end:\n"
       "            (_, end1) = heapq.heappop(self.overwrites)\n"
       "            end = max(end, end1)\n"
       "        return (start, end)\n", "C39.10"),
    # the helper is handed the start of the region instead of its end
    _X("merge-helper-started-from-start", "            heapq.heappop(self.overwrites)\n            end = self._merge_following(start)\n",
       "    def _merge_following(self, end):\n"
       "        while len(self.overwrites) > 0:\n"
       "            (start1, end1) = self.overwrites[0]\n"
       "            if start1 > end:\n"
       "                break\n"
       "            end = max(end, end1)\n"
       "            heapq.heappop(self.overwrites)\n"
       "        return end\n", "C39.10"),
    # the helper reads the first record without knowing that there is one
    _X("merge-helper-top-unguarded", _CALL_REGION,
       "    def _pop_merged_overwrite(self):\n"
       "        (start, end) = heapq.heappop(self.overwrites)\n"
       "        while self.overwrites[0][0] <= end:\n"
       "            (_, end1) = heapq.heappop(self.overwrites)\n"
       "            end = max(end, end1)\n"
       "        return (start, end)\n", "C39.7"),
    # behaviour-preserving extractions
    _X("benign-merge-helper-max", _CALL_REGION,
       "    def _pop_merged_overwrite(self):\n"
       "        (start, end) = heapq.heappop(self.overwrites)\n"
       "        while len(self.overwrites) > 0 and self.overwrites[0][0] <= end:\n"
       "            (_, end1) = heapq.heappop(self.overwrites)\n"
       "            end = max(end, end1)\n"
       "        return (start, end)\n", None),
    _X("benign-merge-helper-verbatim", "            heapq.heappop(self.overwrites)\n" + _CALL_END,
       "    def _merge_following(self, end):\n"
       "        while len(self.overwrites) > 0:\n"
       "            (start1, end1) = self.overwrites[0]\n"
       "            if start1 > end:\n"
       "                break\n"
       "            end = max(end, end1)\n"
       "            heapq.heappop(self.overwrites)\n"
       "        return end\n", None),
    _X("benign-merge-helper-pops-itself", _CALL_END,
       "    def _merge_following(self, end):\n"
       "        heapq.heappop(self.overwrites)\n"
       "        while self.overwrites:\n"
       "            (start1, end1) = self.overwrites[0]\n"
       "            if not (start1 <= end):\n"
       "                break\n"
       "            heapq.heappop(self.overwrites)\n"
       "            if end1 > end:\n"
       "                end = end1\n"
       "        return end\n", None),
    _X("benign-merge-helper-guarded-pop", _CALL_REGION,
       "    def _pop_merged_overwrite(self):\n"
       "        region = heapq.heappop(self.overwrites)\n"
       "        (start, end) = region\n"
       "        while len(self.overwrites) > 0 and self.overwrites[0][0] <= end:\n"
       "            if self.overwrites[0][1] > end:\n"
       "                (_, end) = heapq.heappop(self.overwrites)\n"
       "            else:\n"
       "                heapq.heappop(self.overwrites)\n"
       "        return (start, end)\n", None),
]

# ---- C39.11 (seeded C39-G): records leave the overwrite heap only when write() has consumed them
_PUBLISH = "        self.current_size = size\n\n        # make the invariant"


def _before_publish(code):
    return code + _PUBLISH


MUTANTS += [
    # the seeded mechanism: truncation prunes the heap keyed on the record's END, so a record straddling the new EOF is dropped whole
    M("prune-on-truncate-keyed-on-end", F, _PUBLISH, _before_publish(
        "        if size < self.current_size and len(self.overwrites) > 0:\n"
        "            self.overwrites = [(start, end) for (start, end) in self.overwrites if end <= size]\n"
        "            heapq.heapify(self.overwrites)\n"), "C39.11"),
    # the same effect, written as a pop / re-push loop
    M("prune-on-truncate-pop-loop", F, _PUBLISH, _before_publish(
        "        if size < self.current_size:\n"
        "            kept = []\n"
        "            while len(self.overwrites) > 0:\n"
        "                (s, e) = heapq.heappop(self.overwrites)\n"
        "                if e <= size:\n"
        "                    kept.append((s, e))\n"
        "            for rec in kept:\n"
        "                heapq.heappush(self.overwrites, rec)\n"), "C39.11"),
    # the prune keeps the right records but clips their start to the truncation point
    M("prune-on-truncate-rewrites-start", F, _PUBLISH, _before_publish(
        "        if size < self.current_size:\n"
        "            self.overwrites = sorted((max(s, self.downloaded + 1), e) for (s, e) in self.overwrites if s < size)\n"), "C39.11"),
    # 'the download is finished, free the records' - but download_done() is also called while chunks still arrive
    M("heap-freed-when-download-declared-done", F, "        self.done_status = res\n", "        self.done_status = res\n        self.overwrites = []\n", "C39.11"),
    M("heap-cleared-through-alias", F, "        self.done_status = res\n",
      "        self.done_status = res\n        pending = self.overwrites\n        pending.clear()\n", "C39.11"),
    M("heap-emptied-on-truncate-to-zero", F, _PUBLISH, _before_publish("        if size == 0:\n            del self.overwrites[:]\n"), "C39.11"),
    M("heap-first-record-dropped-by-reader", F, "        needed = min(offset + length, self.download_size)\n",
      "        needed = min(offset + length, self.download_size)\n"
      "        if len(self.overwrites) > 0 and self.overwrites[0][1] <= needed:\n"
      "            heapq.heappop(self.overwrites)\n", "C39.11"),
    M("heap-reset-by-file-handle", F, "                self.consumer.set_current_size(size)\n",
      "                self.consumer.overwrites = []\n                self.consumer.set_current_size(size)\n", "C39.11"),
    # .. but records that merely overlap it are not: their part outside the new region loses its protection
    M("overlapping-records-coalesced-on-overwrite", F, "        if end > self.downloaded:\n            heapq.heappush(self.overwrites, (start, end))",
      "        if end > self.downloaded:\n            self.overwrites = [rec for rec in self.overwrites if rec[1] <= start or rec[0] >= end]\n"
      "            heapq.heapify(self.overwrites)\n            heapq.heappush(self.overwrites, (start, end))", "C39.11"),
    M("heap-escapes-to-helper", F, _PUBLISH, _before_publish("        _prune_regions(self.overwrites, size)\n"), "ANALYSIS-ERROR",
      edits=[(F, "SIZE_THRESHOLD = 1000\n", "SIZE_THRESHOLD = 1000\n\n\ndef _prune_regions(regions, size):\n    regions[:] = [r for r in regions if r[1] <= size]\n")]),
    # behaviour-preserving: only records that START at/after the new size are dropped (the download is clamped to it)
    M("benign-prune-on-truncate-keyed-on-start", F, _PUBLISH, _before_publish(
        "        if size < self.current_size and len(self.overwrites) > 0:\n"
        "            self.overwrites = [(start, end) for (start, end) in self.overwrites if start < size]\n"
        "            heapq.heapify(self.overwrites)\n"), None),
    M("benign-prune-on-truncate-clipping", F, _PUBLISH, _before_publish(
        "        if size < self.current_size:\n"
        "            self.overwrites = sorted((s, min(e, size)) for (s, e) in self.overwrites if not (s >= size))\n"), None),
    M("benign-prune-records-the-download-passed", F, _PUBLISH, _before_publish(
        "        self.overwrites = [rec for rec in self.overwrites if rec[1] > self.downloaded or rec[0] < size]\n"
        "        heapq.heapify(self.overwrites)\n"), None),
    # overwrite() coalesces: records lying inside the region it is about to record are dropped - they stay covered
    M("benign-covered-records-coalesced-on-overwrite", F, "        if end > self.downloaded:\n            heapq.heappush(self.overwrites, (start, end))",
      "        if end > self.downloaded:\n            self.overwrites = [rec for rec in self.overwrites if not (start <= rec[0] and rec[1] <= end)]\n"
      "            heapq.heapify(self.overwrites)\n            heapq.heappush(self.overwrites, (start, end))", None),
    M("benign-covered-records-coalesced-chained-compare", F, "        if end > self.downloaded:\n            heapq.heappush(self.overwrites, (start, end))",
      "        if end > self.downloaded:\n            self.overwrites = [(s, e) for (s, e) in self.overwrites if not (start <= s <= e <= end)]\n"
      "            heapq.heapify(self.overwrites)\n            heapq.heappush(self.overwrites, (start, end))", None),
    M("benign-heap-resorted", F, _PUBLISH, _before_publish("        self.overwrites = sorted(self.overwrites)\n"), None),
    M("benign-heap-freed-on-close", F, "            self.is_closed = True\n", "            self.is_closed = True\n            self.overwrites = []\n", None),
    M("benign-heap-size-logged", F, _PUBLISH, _before_publish(
        "        if noisy: self.log(\"%d pending %r\" % (len(self.overwrites), (self.overwrites,)), level=NOISY)\n"), None),
]

# ---- C39.12: in write(), a record is taken off only after it was examined, and is then accounted for
_REQUEUE_TEST = "            if end >= next_downloaded:\n                # This overwrite extends past"
MUTANTS += [
    # a 'nothing to do' fast path that forgets the part of the region inside the chunk
    M("taken-record-forgotten-by-fast-path", F, _REQUEUE_TEST,
      "            if end <= next_downloaded and start <= self.downloaded:\n"
      "                # the region began before this chunk: nothing of it is left to protect\n"
      "                continue\n" + _REQUEUE_TEST, "C39.12"),
    M("taken-record-early-return", F, _REQUEUE_TEST,
      "            if len(data) == 0:\n                return\n" + _REQUEUE_TEST, "C39.12"),
    # records beyond the chunk are consumed early when the heap is large
    M("record-beyond-chunk-consumed", F, "            if start >= next_downloaded:\n                # This and all",
      "            if start >= next_downloaded and len(self.overwrites) < 64:\n                # This and all", "C39.12"),
    M("merge-pops-record-beyond-merged-end", F, "                if start1 > end:\n                    break\n",
      "                if start1 > end and end1 > next_downloaded:\n                    break\n", "C39.12"),
    M("benign-stale-record-explicit", F, _REQUEUE_TEST,
      "            if end < self.downloaded:\n                continue\n" + _REQUEUE_TEST, None),
    M("benign-skip-test-negated", F, "            elif end >= self.downloaded:\n", "            elif not (end < self.downloaded):\n", None),
    M("benign-pop-before-prefix-write", F,
      "            if start > self.downloaded:\n                # The data we just downloaded has been partially overwritten.\n",
      "            heapq.heappop(self.overwrites)\n            if start > self.downloaded:\n                # The data we just downloaded has been partially overwritten.\n",
      None, edits=[(F, "            # to download has already been fully overwritten.\n            heapq.heappop(self.overwrites)\n",
                    "            # to download has already been fully overwritten.\n")]),
]

# ---- C39.13: sibling bookkeeping (downloaded / current_size / download_size / milestones)
MUTANTS += [
    # "mark everything up to the new size as present, so that waiting readers are released"
    M("downloaded-fast-forwarded-on-truncate", F, "        if self.downloaded >= self.download_size:\n            self.download_done(b\"size changed\")",
      "        self._update_downloaded(self.download_size)\n        if self.downloaded >= self.download_size:\n            self.download_done(b\"size changed\")", "C39.13"),
    # "the client has just written these bytes, the download need not deliver them" - but the stream does not skip them
    M("downloaded-advanced-by-overwrite", F, "        self.current_size = max(self.current_size, end)\n",
      "        self.current_size = max(self.current_size, end)\n        if start <= self.downloaded < end:\n            self.downloaded = end\n", "C39.13"),
    # "in case the file was resized before the download started" - undoes the clamp of an earlier truncation
    M("download-size-reset-at-producer-registration", F, "        self.producer = p\n", "        self.producer = p\n        self.download_size = self.current_size\n", "C39.13"),
    M("download-size-follows-extension", F, "            self.overwrite(self.current_size, b\"\\x00\" * (size - self.current_size))\n",
      "            self.overwrite(self.current_size, b\"\\x00\" * (size - self.current_size))\n            if self.done_status is None:\n                self.download_size = max(self.download_size, self.downloaded)\n", "C39.13"),
    M("current-size-raised-by-download", F, "        self.f.seek(self.downloaded)\n        self.f.write(data)\n        self._update_downloaded(next_downloaded)",
      "        self.f.seek(self.downloaded)\n        self.f.write(data)\n        self.current_size = max(self.current_size, next_downloaded)\n        self._update_downloaded(next_downloaded)", "C39.13"),
    M("skip-beyond-chunk-then-position-moves-back", F, "            if end >= next_downloaded:\n                # This overwrite extends past",
      "            if end >= next_downloaded and end < self.download_size:\n                # This overwrite extends past", "C39.13"),
    M("waiters-dropped-on-close", F, "        self.download_done(b\"closed\")\n", "        self.milestones = []\n        self.download_done(b\"closed\")\n", "C39.13"),
    M("benign-milestones-rechecked-after-truncate", F, "        if self.downloaded >= self.download_size:\n            self.download_done(b\"size changed\")",
      "        self._update_downloaded(self.downloaded)\n        if self.downloaded >= self.download_size:\n            self.download_done(b\"size changed\")", None),
    # pulling the position back to the truncation point is harmless: download_size is clamped to it as well, write() ignores the rest
    M("benign-downloaded-clamped-on-truncate", F, _PUBLISH, _before_publish("        self.downloaded = min(self.downloaded, size)\n"), None),
    M("benign-downloaded-clamped-through-update", F, "        if self.downloaded >= self.download_size:\n            self.download_done(b\"size changed\")",
      "        self._update_downloaded(min(size, self.downloaded))\n        if self.downloaded >= self.download_size:\n            self.download_done(b\"size changed\")", None),
    # a write that reaches the end of what is still to be downloaded: everything from its start on is client data, the download
    # may stop there (download_size only ever goes down)
    M("benign-download-stops-at-tail-overwrite", F, "        self.current_size = max(self.current_size, end)\n",
      "        self.current_size = max(self.current_size, end)\n        if end >= self.download_size:\n            self.download_size = min(self.download_size, start)\n", None),
    M("benign-current-size-max-mirrored", F, "        self.current_size = max(self.current_size, end)\n", "        self.current_size = max(end, self.current_size)\n", None),
]

# ---- round 6 (seeded C39-I): write() no longer unpacks self.overwrites[0]; it tests self.overwrites[0][0] in place and takes the
# ---- whole region `(start, end) = self._pop_merged_overwrite()` from a helper that pops the first record too (a refactor with
# ---- len(x) > 0 -> truthiness and `if end > milestone: milestone = end` -> max() tidy-ups)
_I_EDITS = [
    (F, "        while len(self.overwrites) > 0:\n            (start, end) = self.overwrites[0]\n            if start >= next_downloaded:\n",
     "        while self.overwrites:\n            if self.overwrites[0][0] >= next_downloaded:\n"),
    (F, "                break\n            if start > self.downloaded:\n",
     "                break\n\n            (start, end) = self._pop_merged_overwrite()\n            if start > self.downloaded:\n"),
    (F, "        if len(self.overwrites) > 0:\n            (start, end) = self.overwrites[0]\n            if start <= new_downloaded and end > milestone:\n                milestone = end\n\n        while len(self.milestones) > 0:\n",
     "        if self.overwrites:\n            (start, end) = self.overwrites[0]\n            if start <= new_downloaded:\n                milestone = max(milestone, end)\n\n        while self.milestones:\n"),
    (F, "        while len(self.milestones) > 0:\n            (next_, d) = self.milestones[0]\n            if noisy: self.log(\"MILESTONE FINISH",
     "        while self.milestones:\n            (next_, d) = self.milestones[0]\n            if noisy: self.log(\"MILESTONE FINISH"),
]
_I_HELPER = ("    def _pop_merged_overwrite(self):\n"
             "        (start, end) = heapq.heappop(self.overwrites)\n"
             "        while %s:\n"
             "%s"
             "        return (start, end)\n")
_I_ADJ = "self.overwrites and self.overwrites[0][0] <= end"


def _I(name, merge, expect, cond=_I_ADJ, more=()):
    """The C39-I refactor with `merge` as the body of the helper's merge loop (+ further edits applied on top of it)."""
    return M(name, F, "            # This merges consecutive overwrites if possible, which allows us to detect the\n"
             "            # case where the download can be stopped early because the remaining region\n"
             "            # to download has already been fully overwritten.\n" + _MERGE_INLINE + "\n", "", expect,
             edits=[(F, _NEXT_METHOD, _helper(_I_HELPER % (cond, merge)))] + _I_EDITS + list(more))


MUTANTS += [
    # the same refactor done faithfully
    _I("benign-region-helper-faithful", "            (_, end1) = heapq.heappop(self.overwrites)\n            end = max(end, end1)\n", None),
    _I("benign-region-helper-max-of-popped", "            end = max(end, heapq.heappop(self.overwrites)[1])\n", None),
    _I("benign-region-helper-guarded", "            (_, end1) = heapq.heappop(self.overwrites)\n            if end1 > end:\n                end = end1\n", None),
    # the seeded slip: the heap is ascending by START only, the popped record may end before the merged end
    _I("region-helper-takes-last-end", "            (_, end) = heapq.heappop(self.overwrites)\n", "C39.10"),
    # a different edit with the same effect
    _I("region-helper-end-of-popped", "            end = heapq.heappop(self.overwrites)[1]\n", "C39.10"),
    # merges records that do not adjoin the region
    _I("region-helper-merges-all", "            (_, end1) = heapq.heappop(self.overwrites)\n            end = max(end, end1)\n", "C39.10",
       cond="self.overwrites"),
    # C39.14: the region's start follows the merged records
    _I("region-helper-start-rebound", "            (start, end1) = heapq.heappop(self.overwrites)\n            end = max(end, end1)\n", "C39.14"),
    _I("region-helper-start-from-last-record", "            rec = heapq.heappop(self.overwrites)\n            start = rec[0]\n            end = max(end, rec[1])\n", "C39.14"),
    _I("region-helper-start-is-record-end", "            (_, end1) = heapq.heappop(self.overwrites)\n            end = max(end, end1)\n", "C39.14",
       more=[(F, "        (start, end) = heapq.heappop(self.overwrites)\n        while self.overwrites and", "        (end, start) = heapq.heappop(self.overwrites)\n        while self.overwrites and")]),
    # the refactored write() forgets to re-queue the rest of the region (the bookkeeping rules decide the new shape as well)
    _I("region-helper-shape-requeue-dropped", "            (_, end1) = heapq.heappop(self.overwrites)\n            end = max(end, end1)\n", ["C39.12", "C39.2"],
       more=[(F, "                heapq.heappush(self.overwrites, (next_downloaded, end))\n                self._update_downloaded(next_downloaded)\n                return\n",
              "                self._update_downloaded(next_downloaded)\n                return\n")]),
    # .. or takes the region off the heap without having compared its first record with the chunk on that turn
    _I("region-helper-shape-taken-before-compared", "            (_, end1) = heapq.heappop(self.overwrites)\n            end = max(end, end1)\n", "C39.12",
       more=[(F, "            if self.overwrites[0][0] >= next_downloaded:\n                # This and all remaining overwrites are after the data we just downloaded.\n                break\n\n            (start, end) = self._pop_merged_overwrite()\n",
              "            (start, end) = self._pop_merged_overwrite()\n            if self.overwrites and self.overwrites[0][0] >= next_downloaded:\n                break\n")]),
    # the comparison with the chunk is gone altogether: nothing the rules can anchor on
    _I("region-helper-shape-not-compared", "            (_, end1) = heapq.heappop(self.overwrites)\n            end = max(end, end1)\n", "ANALYSIS-ERROR",
       more=[(F, "            if self.overwrites[0][0] >= next_downloaded:\n", "            if self.overwrites[0][1] >= next_downloaded:\n")]),
    # C39.5 with max(): faithful tidy-up / the contiguity test dropped
    M("benign-milestone-max", F, "            if start <= new_downloaded and end > milestone:\n                milestone = end\n",
      "            if start <= new_downloaded:\n                milestone = max(milestone, end)\n", None),
    M("milestone-max-unconditional", F, "            if start <= new_downloaded and end > milestone:\n                milestone = end\n",
      "            milestone = max(milestone, end)\n", "C39.5"),
    M("milestone-max-with-download-size", F, "            if start <= new_downloaded and end > milestone:\n                milestone = end\n",
      "            if start <= new_downloaded:\n                milestone = max(milestone, end, self.download_size)\n", "C39.5"),
]

_I_OK = "            (_, end1) = heapq.heappop(self.overwrites)\n            end = max(end, end1)\n"
_I_FIRST = "        (start, end) = heapq.heappop(self.overwrites)\n        while self.overwrites and"
MUTANTS += [
    # the helper reads the first record through a local / reads it in place before popping it (write() has tested the heap non-empty)
    _I("benign-region-helper-record-local", _I_OK, None,
       more=[(F, _I_FIRST, "        first = heapq.heappop(self.overwrites)\n        start, end = first\n        while self.overwrites and")]),
    _I("benign-region-helper-top-then-pop", _I_OK, None,
       more=[(F, _I_FIRST, "        (start, end) = self.overwrites[0]\n        heapq.heappop(self.overwrites)\n        while self.overwrites and")]),
    _I("benign-region-helper-result-local", _I_OK, None,
       more=[(F, "            (start, end) = self._pop_merged_overwrite()\n", "            region = self._pop_merged_overwrite()\n            (start, end) = region\n")]),
    # .. but after its own pops the heap may be empty
    _I("region-helper-loop-reads-empty-heap", _I_OK, "C39.7", cond="self.overwrites[0][0] <= end"),
    # .. and write() must have tested the heap before it calls the helper
    _I("region-helper-called-on-empty-heap", _I_OK, ["C39.7", "C39.12"],
       more=[(F, "            if self.overwrites[0][0] >= next_downloaded:\n                # This and all remaining overwrites are after the data we just downloaded.\n                break\n\n            (start, end) = self._pop_merged_overwrite()\n",
              "            if self.overwrites[0][0] >= next_downloaded:\n                # This and all remaining overwrites are after the data we just downloaded.\n                break\n\n            (start, end) = self._pop_merged_overwrite()\n            if end < self.downloaded:\n                (start, end) = self._pop_merged_overwrite()\n"),
             (F, _I_FIRST, "        (start, end) = self.overwrites[0]\n        heapq.heappop(self.overwrites)\n        while self.overwrites and")]),
]
