from .runner import M

F = "src/allmydata/web/filenode.py"
FM = "src/allmydata/mutable/filenode.py"
FR = "src/allmydata/mutable/retrieve.py"
FC = "src/allmydata/web/common.py"
FI = "src/allmydata/immutable/filenode.py"
_CODE_KNOWN = "    if code is not None:\n        return _renderHTTP_exception_simple(request, text, code)\n"
_SIMPLE = ("    request.setResponseCode(code)\n"
           "    request.setHeader(\"content-type\", \"text/plain;charset=utf-8\")\n"
           "    if isinstance(text, str):\n"
           "        text = text.encode(\"utf-8\")\n"
           "    request.setHeader(\"content-length\", b\"%d\" % len(text))\n"
           "    return text\n")
_CTR = ("        offset_big = offset // 16\n"
        "        offset_small = offset % 16\n"
        "        iv = binascii.unhexlify(\"%032x\" % offset_big)\n"
        "        self._decryptor = aes.create_decryptor(readkey, iv)\n"
        "        # this is just to advance the counter\n"
        "        aes.decrypt_data(self._decryptor, b\"\\x00\" * offset_small)\n")
_RET_ALL = "            return [ parse_range(r.strip()) for r in rangeset.split(',') ]\n"
# parse_range as it stands after the repair of the 'unsatisfiable is not invalid' defect (rule C40.15): the
# first <= last test sits in the branch of an explicit last-byte-pos, a signed suffix-length is refused
_SUFFIX_GUARD = ("                    suffix_length = int(last)\n"
                 "                    if suffix_length < 0:\n")
_SUFFIX_PAIR = ("                    first = filesize - suffix_length\n"
                "                    last = filesize - 1\n")
_OPEN = ("                    if last == '':\n"
         "                        last = filesize - 1\n")
_EXPLICIT_CHECK = ("                        if last < first:\n"
                   "                            raise ValueError\n")
_EXPLICIT = ("                        last = int(last)\n"
             "                        # Only an explicit last-byte-pos smaller than the\n"
             "                        # first-byte-pos makes the spec invalid (and the\n"
             "                        # header ignored).  A range that is valid but\n"
             "                        # starts at or beyond the end of the file is\n"
             "                        # unsatisfiable: render() answers that with 416.\n" + _EXPLICIT_CHECK)

MUTANTS = [
    # ---- C40.1 announced = served
    M("length-off-by-one", F,
      "                    contentsize = last - first + 1\n", "                    contentsize = last - first\n", "C40.1"),
    M("read-to-eof-ignores-last", F,
      "        d = self.filenode.read(req, first, size)\n", "        d = self.filenode.read(req, first, None)\n", "C40.1"),
    M("size-announced-not-served", F,
      "                    size = contentsize\n", "                    size = contentsize - 1\n", "C40.1"),
    M("last-not-clipped", F,
      "                    last = min(filesize-1, last)\n", "", "C40.1"),
    M("first-not-clipped", F,
      "                    first = max(0, first)\n", "", "C40.1"),
    M("content-range-unclipped-last", F,
      "                    first = max(0, first)\n                    last = min(filesize-1, last)\n",
      "                    first = max(0, first)\n                    wanted_last = last\n"
      "                    last = min(filesize-1, last)\n",
      "C40.1", edits=[(F, "                                  (str(first), str(last),\n",
                       "                                  (str(first), str(wanted_last),\n")]),
    M("total-is-range-length", F,
      "                                   str(filesize)))\n                    contentsize = last - first + 1\n",
      "                                   str(last - first + 1)))\n                    contentsize = last - first + 1\n",
      "C40.1"),
    M("full-length-for-range", F,
      "        req.setHeader(\"content-length\", b\"%d\" % contentsize)\n",
      "        req.setHeader(\"content-length\", b\"%d\" % filesize)\n", "C40.1"),
    # ---- C40.2 status / 416 ordering
    M("416-only-beyond-end", F,
      "                if first >= filesize:\n", "                if first > filesize:\n", "C40.2"),
    M("206-dropped", F,
      "                    req.setResponseCode(http.PARTIAL_CONTENT)\n", "", "C40.2"),
    M("416-check-dropped", F,
      "                if first >= filesize:\n                    raise WebError('First beyond end of file',\n"
      "                                   http.REQUESTED_RANGE_NOT_SATISFIABLE)\n                else:\n",
      "                if True:\n", "C40.2"),
    M("unparsed-header-gets-206", F,
      "            if ranges is not None:\n                first, last = ranges[0]\n",
      "            if ranges is None:\n                ranges = [(0, filesize - 1)]\n            if True:\n"
      "                first, last = ranges[0]\n", "C40.2"),
    M("416-becomes-400", F,
      "                                   http.REQUESTED_RANGE_NOT_SATISFIABLE)\n",
      "                                   http.BAD_REQUEST)\n", "C40.2"),
    # ---- C40.3 HEAD
    M("head-before-content-length", F,
      "        req.setHeader(\"content-length\", b\"%d\" % contentsize)\n        if req.method == b\"HEAD\":\n"
      "            return b\"\"\n",
      "        if req.method == b\"HEAD\":\n            return b\"\"\n"
      "        req.setHeader(\"content-length\", b\"%d\" % contentsize)\n", "C40.3"),
    M("head-reads-body", F,
      "        if req.method == b\"HEAD\":\n            return b\"\"\n\n        d = self.filenode.read(req, first, size)\n",
      "        d = self.filenode.read(req, first, size)\n        if req.method == b\"HEAD\":\n            return b\"\"\n",
      "C40.3"),
    # ---- C40.4 parse_range_header
    M("units-not-checked", F,
      "            if units != 'bytes':\n                return None     # nothing else supported\n", "", "C40.4"),
    M("units-check-inverted", F,
      "            if units != 'bytes':\n", "            if units == 'bytes':\n", "C40.4"),
    M("bad-range-is-an-error", F,
      "        except ValueError:\n            return None\n",
      "        except ValueError:\n            raise WebError(\"bad Range header\", http.BAD_REQUEST)\n", "C40.4"),
    M("split-outside-try", F,
      "        try:\n            # byte-ranges-specifier\n            units, rangeset = range_header.split('=', 1)\n",
      "        units, rangeset = range_header.split('=', 1)\n        try:\n", "C40.4"),
    # ---- C40.5 parse_range
    M("inverted-range-accepted", F, _EXPLICIT_CHECK, "", "C40.5"),
    M("suffix-last-off-by-one", F, _SUFFIX_PAIR,
      "                    first = filesize - suffix_length\n                    last = filesize\n", "C40.5"),
    M("suffix-counts-from-start", F,
      "                    first = filesize - suffix_length\n", "                    first = suffix_length\n", "C40.5"),
    M("signed-suffix-length-accepted", F,
      _SUFFIX_GUARD + "                        # int() accepts a sign, the grammar does not\n"
      "                        raise ValueError\n",
      "                    suffix_length = int(last)\n", "C40.5"),
    M("signed-suffix-length-made-positive", F, _SUFFIX_GUARD,
      "                    suffix_length = abs(int(last))\n                    if suffix_length < 0:\n", "C40.5"),
    M("open-ended-last-is-first", F, _OPEN,
      "                    if last == '':\n                        last = first\n", "C40.5"),
    M("inverted-raises-other-error", F, _EXPLICIT_CHECK,
      "                        if last < first:\n                            raise IndexError\n", "C40.5"),
    # ---- C40.6 HEAD and GET share the renderer
    M("head-shortcut-for-immutable", F,
      "        filename = get_arg(req, b\"filename\", self.name) or \"unknown\"\n",
      "        if not self.node.is_mutable():\n"
      "            req.setHeader(\"content-length\", b\"%d\" % self.node.get_size())\n"
      "            return b\"\"\n"
      "        filename = get_arg(req, b\"filename\", self.name) or \"unknown\"\n", "C40.6"),
    M("head-on-node-not-version", F,
      "        filename = get_arg(req, b\"filename\", self.name) or \"unknown\"\n"
      "        d = self.node.get_best_readable_version()\n"
      "        d.addCallback(lambda dn: FileDownloader(dn, filename))\n",
      "        filename = get_arg(req, b\"filename\", self.name) or \"unknown\"\n"
      "        d = self.node.get_best_readable_version()\n"
      "        d.addCallback(lambda dn: FileDownloader(self.node, filename))\n", "C40.6"),
    # ---- gap review: survivors of the mutation sweep
    M("416-args-swapped", F,
      "                    raise WebError('First beyond end of file',\n"
      "                                   http.REQUESTED_RANGE_NOT_SATISFIABLE)\n",
      "                    raise WebError(http.REQUESTED_RANGE_NOT_SATISFIABLE,\n"
      "                                   'First beyond end of file')\n", "C40.2"),
    M("range-test-negated", F,
      "        if rangeheader:\n", "        if not rangeheader:\n", "C40.7"),
    M("wrong-header-parsed", F,
      "        rangeheader = req.getHeader('range')\n", "        rangeheader = req.getHeader('content-range')\n",
      "C40.7"),
    M("range-skipped-for-head", F,
      "        if rangeheader:\n", "        if rangeheader and req.method != b\"HEAD\":\n", "C40.7"),
    M("return-dropped-after-read", F,
      "            _error,\n        )\n        return d\n", "            _error,\n        )\n", "C40.8"),
    M("returns-fired-deferred", F,
      "            _error,\n        )\n        return d\n",
      "            _error,\n        )\n        return defer.succeed(None)\n", "C40.8"),
    M("callbacks-dropped", F,
      "        d.addCallbacks(\n            lambda ignored: None,\n            _error,\n        )\n", "", "C40.8"),
    M("callbacks-swapped", F,
      "        d.addCallbacks(\n            lambda ignored: None,\n            _error,\n        )\n",
      "        d.addCallbacks(\n            _error,\n            lambda ignored: None,\n        )\n", "C40.8"),
    M("success-answers-consumer", F,
      "            lambda ignored: None,\n            _error,\n", "            lambda res: res,\n            _error,\n",
      "C40.8"),
    M("head-t-test-negated", F,
      "        if t:\n            raise WebError(\"HEAD file: bad t=%s\" % t)\n",
      "        if not t:\n            raise WebError(\"HEAD file: bad t=%s\" % t)\n", "C40.9"),
    M("get-plain-test-negated", F,
      "        if not t:\n            # just get the contents\n", "        if t:\n            # just get the contents\n",
      "C40.9"),
    M("etag-test-negated", F,
      "            if si and req.setETag(b'%s-%s' % (base32.b2a(si), t.encode(\"ascii\") or b\"\")):\n",
      "            if not (si and req.setETag(b'%s-%s' % (base32.b2a(si), t.encode(\"ascii\") or b\"\"))):\n",
      "C40.9"),
    M("etag-or", F,
      "            if si and req.setETag(b'%s-%s' % (base32.b2a(si), t.encode(\"ascii\") or b\"\")):\n",
      "            if si or req.setETag(b'%s-%s' % (base32.b2a(si), t.encode(\"ascii\") or b\"\")):\n",
      "C40.9"),
    M("get-plain-is-json", F,
      "        if t == \"json\":\n            # We do this to make sure", "        if t != \"info\":\n            # We do this to make sure",
      "C40.9", edits=[(F, "        if not t:\n            # just get the contents\n",
                       "        if t == \"download\":\n            # just get the contents\n")]),
    # ---- benign
    M("benign-416-keyword", F,
      "                    raise WebError('First beyond end of file',\n"
      "                                   http.REQUESTED_RANGE_NOT_SATISFIABLE)\n",
      "                    raise WebError(code=http.REQUESTED_RANGE_NOT_SATISFIABLE,\n"
      "                                   text='First beyond end of file')\n", None),
    M("benign-range-is-not-none", F,
      "        rangeheader = req.getHeader('range')\n        if rangeheader:\n            ranges = self.parse_range_header(rangeheader)\n",
      "        if req.getHeader('Range') is not None:\n            ranges = self.parse_range_header(req.getHeader('Range'))\n",
      None),
    M("benign-callback-then-errback", F,
      "        d.addCallbacks(\n            lambda ignored: None,\n            _error,\n        )\n        return d\n",
      "        def _done(ignored):\n            return None\n        d2 = d.addCallback(_done)\n"
      "        d2.addErrback(_error)\n        return d2\n", None),
    M("benign-chained-return", F,
      "        d.addCallbacks(\n            lambda ignored: None,\n            _error,\n        )\n        return d\n",
      "        return d.addCallbacks(lambda ignored: None, _error)\n", None),
    M("benign-head-t-compare", F,
      "        if t:\n            raise WebError(\"HEAD file: bad t=%s\" % t)\n",
      "        if t != b\"\":\n            raise WebError(\"HEAD file: bad t=%s\" % t)\n", None),
    M("benign-get-t-compare", F,
      "        if not t:\n            # just get the contents\n", "        if t == \"\":\n            # just get the contents\n",
      None),
    M("benign-return-hoisted", F,
      "        d.addCallback(lambda dn: FileDownloader(dn, filename))\n        return d\n\n    @render_exception\n    def render_PUT",
      "        d.addCallback(lambda dn: FileDownloader(dn, filename))\n        rv = d\n        return rv\n\n"
      "    @render_exception\n    def render_PUT", None),
    M("head-returns-fresh-version-deferred", F,
      "        d.addCallback(lambda dn: FileDownloader(dn, filename))\n        return d\n\n    @render_exception\n    def render_PUT",
      "        d.addCallback(lambda dn: FileDownloader(dn, filename))\n        d = self.node.get_best_readable_version()\n"
      "        return d\n\n    @render_exception\n    def render_PUT", "C40.6"),
    M("benign-minmax-args-swapped", F,
      "                    first = max(0, first)\n                    last = min(filesize-1, last)\n",
      "                    first = max(first, 0)\n                    last = min(last, filesize-1)\n", None),
    M("benign-size-first", F,
      "                    contentsize = last - first + 1\n                    size = contentsize\n",
      "                    size = 1 + last - first\n                    contentsize = size\n", None),
    M("benign-not-lt", F,
      "                if first >= filesize:\n", "                if not first < filesize:\n", None),
    M("benign-truthy-ranges", F,
      "            if ranges is not None:\n", "            if ranges:\n", None),
    M("benign-head-flipped", F,
      "        if req.method == b\"HEAD\":\n", "        if b\"HEAD\" == req.method:\n", None),
    M("benign-if-clipping", F,
      "                    last = min(filesize-1, last)\n",
      "                    if last >= filesize:\n                        last = filesize - 1\n", None),
    M("benign-parse-range-renamed", F,
      _EXPLICIT_CHECK + "\n                return (first, last)\n",
      "                        if not (first <= last):\n                            raise ValueError()\n\n"
      "                result = (first, last)\n                return result\n", None),
    M("benign-inline-format", F,
      "        req.setHeader(\"content-length\", b\"%d\" % contentsize)\n",
      "        req.setHeader(\"content-length\", str(contentsize))\n", None),
    M("benign-units-eq", F,
      "            if units != 'bytes':\n                return None     # nothing else supported\n",
      "            if not units == 'bytes':\n                return\n", None),
    M("benign-head-lambda-renamed", F,
      "        filename = get_arg(req, b\"filename\", self.name) or \"unknown\"\n"
      "        d = self.node.get_best_readable_version()\n"
      "        d.addCallback(lambda dn: FileDownloader(dn, filename))\n        return d\n",
      "        filename = get_arg(req, b\"filename\", self.name) or \"unknown\"\n"
      "        version_d = self.node.get_best_readable_version()\n"
      "        version_d.addCallback(lambda version: FileDownloader(version, filename))\n        return version_d\n", None),
    # ---- C40.10 every byte-range-spec of the set is parsed
    M("only-first-spec-parsed", F, _RET_ALL,
      "            first_spec = rangeset.split(',', 1)[0]\n"
      "            return [ parse_range(first_spec.strip()) ]\n", "C40.10"),
    M("first-spec-by-slice", F, _RET_ALL,
      "            return [ parse_range(r.strip()) for r in rangeset.split(',')[:1] ]\n", "C40.10"),
    M("maxsplit-hides-later-specs", F, _RET_ALL,
      "            specs = rangeset.split(',', 1)\n"
      "            return [ parse_range(r.strip()) for r in specs[:1] ]\n", "C40.10"),
    M("later-specs-filtered-out", F, _RET_ALL,
      "            return [ parse_range(r.strip()) for r in rangeset.split(',') if '-' in r ]\n", "C40.10"),
    M("loop-stops-after-first", F, _RET_ALL,
      "            out = []\n"
      "            for r in rangeset.split(','):\n"
      "                out.append(parse_range(r.strip()))\n"
      "                break\n"
      "            return out\n", "C40.10"),
    M("loop-skips-odd-specs", F, _RET_ALL,
      "            out = []\n"
      "            for r in rangeset.split(','):\n"
      "                if out and not r.strip()[:1].isdigit():\n"
      "                    continue\n"
      "                out.append(parse_range(r.strip()))\n"
      "            return out\n", "C40.10"),
    M("benign-specs-hoisted", F, _RET_ALL,
      "            specs = rangeset.split(',')\n"
      "            self.log_specs = len(specs)\n"
      "            return [ parse_range(spec.strip()) for spec in specs ]\n", None),
    M("benign-strip-first-then-parse", F, _RET_ALL,
      "            specs = [ s.strip() for s in rangeset.split(',') ]\n"
      "            return list(parse_range(s) for s in specs)\n", None),
    M("benign-loop-built", F, _RET_ALL,
      "            out = []\n"
      "            for r in rangeset.split(','):\n"
      "                r = r.strip()\n"
      "                out.append(parse_range(r))\n"
      "            return out\n", None),
    M("benign-map", F, _RET_ALL,
      "            return list(map(lambda r: parse_range(r.strip()), rangeset.split(',')))\n", None),
    M("benign-single-range-fast-path", F, _RET_ALL,
      "            if ',' not in rangeset:\n"
      "                return [ parse_range(rangeset.strip()) ]\n"
      "            return [ parse_range(r.strip()) for r in rangeset.split(',') ]\n", None),
    # ---- C40.11 MutableFileVersion.read -> Retrieve.download
    M("mutable-read-drops-size", FM,
      "        d = r.download(consumer, offset, size)\n", "        d = r.download(consumer, offset)\n", "C40.11"),
    M("mutable-read-swaps-offset-size", FM,
      "        return self._do_serialized(self._read, consumer, offset, size,\n"
      "                                   fetch_privkey)\n",
      "        return self._do_serialized(self._read, consumer, size, offset,\n"
      "                                   fetch_privkey)\n", "C40.11"),
    M("mutable-read-size-is-end", FM,
      "        d = r.download(consumer, offset, size)\n",
      "        d = r.download(consumer, offset, offset + size if size else size)\n", "C40.11"),
    M("benign-mutable-read-keywords", FM,
      "        d = r.download(consumer, offset, size)\n",
      "        d = r.download(size=size, consumer=consumer, offset=offset)\n", None),
    M("benign-mutable-read-kw-handover", FM,
      "        return self._do_serialized(self._read, consumer, offset, size,\n"
      "                                   fetch_privkey)\n",
      "        return self._do_serialized(self._read, consumer, offset, size=size,\n"
      "                                   fetch_privkey=fetch_privkey)\n", None),
    # ---- C40.12 (C09.5 / C09.8 / C09.12 / C09.18 adopted): the bytes behind read(offset, size) of a mutable file
    M("tail-length-for-last-segment-of-read", FR,
      "            if segnum == self._num_segments - 1:\n                size_to_use = self._tail_data_size\n",
      "            if segnum == self._last_segment:\n                size_to_use = self._tail_data_size\n", "C40.12"),
    M("tail-length-for-current-last", FR,
      "            if segnum == self._num_segments - 1:\n                size_to_use = self._tail_data_size\n",
      "            if self._current_segment >= self._last_segment:\n                size_to_use = self._tail_data_size\n",
      "C40.12"),
    M("read-tail-cut-for-file-last-segment", FR,
      "        if self._current_segment == self._last_segment:\n            # trim off the tail\n",
      "        if self._current_segment == self._num_segments - 1:\n            # trim off the tail\n", "C40.12"),
    M("end-segment-includes-end-byte", FR,
      "        end = (end_data - 1) // self._segment_size\n", "        end = end_data // self._segment_size\n", "C40.12"),
    M("open-ended-read-ignores-offset", FR,
      "            size = self._data_length - offset\n", "            size = self._data_length\n", "C40.12"),
    M("benign-tail-test-rewritten", FR,
      "            if segnum == self._num_segments - 1:\n                size_to_use = self._tail_data_size\n",
      "            is_tail = (segnum + 1 == self._num_segments)\n"
      "            if is_tail:\n                size_to_use = self._tail_data_size\n", None),
    M("benign-tail-branches-swapped", FR,
      "            if segnum == self._num_segments - 1:\n                size_to_use = self._tail_data_size\n"
      "            else:\n                size_to_use = self._segment_size\n",
      "            if segnum != self._num_segments - 1:\n                size_to_use = self._segment_size\n"
      "            else:\n                size_to_use = self._tail_data_size\n", None),
    # ---- C40.13 the error answer (416) does not depend on the request method
    M("error-head-short-circuit", FC, _CODE_KNOWN,
      "    if request.method == b\"HEAD\":\n"
      "        if code is None:\n"
      "            code = http.INTERNAL_SERVER_ERROR\n"
      "        request.setResponseCode(code)\n"
      "        return b\"\"\n\n" + _CODE_KNOWN, "C40.13"),
    M("error-simple-head-before-headers", FC, _SIMPLE,
      "    request.setResponseCode(code)\n"
      "    if request.method in (b\"HEAD\",):\n"
      "        return b\"\"\n"
      "    request.setHeader(\"content-type\", \"text/plain;charset=utf-8\")\n"
      "    if isinstance(text, str):\n"
      "        text = text.encode(\"utf-8\")\n"
      "    request.setHeader(\"content-length\", b\"%d\" % len(text))\n"
      "    return text\n", "C40.13"),
    M("error-head-length-of-nothing", FC, _SIMPLE,
      "    request.setResponseCode(code)\n"
      "    request.setHeader(\"content-type\", \"text/plain;charset=utf-8\")\n"
      "    if isinstance(text, str):\n"
      "        text = text.encode(\"utf-8\")\n"
      "    if request.method == b\"HEAD\":\n"
      "        text = b\"\"\n"
      "    request.setHeader(\"content-length\", b\"%d\" % len(text))\n"
      "    return text\n", "C40.13"),
    M("finish-head-failure-shortcut", FC,
      "    if isinstance(result, Failure):\n        if result.check(CancelledError):\n            return\n",
      "    if isinstance(result, Failure):\n        if result.check(CancelledError):\n            return\n"
      "        if request.method == b\"HEAD\":\n"
      "            request.setResponseCode(http.INTERNAL_SERVER_ERROR)\n"
      "            request.finish()\n"
      "            return\n", "C40.13"),
    M("wrapper-head-bypasses-finish", FC,
      "        if getattr(request, \"dont_apply_extra_processing\", False):\n",
      "        if request.method == b\"HEAD\" or getattr(request, \"dont_apply_extra_processing\", False):\n", "C40.13"),
    M("benign-error-head-empty-body-after-headers", FC, _SIMPLE,
      "    request.setResponseCode(code)\n"
      "    request.setHeader(\"content-type\", \"text/plain;charset=utf-8\")\n"
      "    if isinstance(text, str):\n"
      "        text = text.encode(\"utf-8\")\n"
      "    request.setHeader(\"content-length\", b\"%d\" % len(text))\n"
      "    if request.method == b\"HEAD\":\n"
      "        return b\"\"\n"
      "    return text\n", None),
    M("benign-error-head-skips-traceback-log", FC, _CODE_KNOWN,
      "    is_head = request.method == b\"HEAD\"\n"
      "    if not is_head:\n"
      "        log.msg(\"rendering error page\")\n" + _CODE_KNOWN, None),
    M("benign-error-code-test-flipped", FC, _CODE_KNOWN,
      "    status = code\n    if not (status is None):\n"
      "        return _renderHTTP_exception_simple(request, code=status, text=text)\n", None),
    M("benign-finish-head-writes-nothing", FC,
      "        request.write(result)\n        request.finish()\n    elif isinstance(result, DecodedURL):\n",
      "        if request.method != b\"HEAD\":\n            request.write(result)\n"
      "        request.finish()\n    elif isinstance(result, DecodedURL):\n", None),
    # ---- C40.14 the decryptor of an immutable read stands at the read offset on every path
    M("ctr-fast-path-first-block", FI, _CTR,
      "        offset_big, offset_small = divmod(offset, 16)\n"
      "        if offset_big:\n"
      "            iv = binascii.unhexlify(\"%032x\" % offset_big)\n"
      "            self._decryptor = aes.create_decryptor(readkey, iv)\n"
      "            aes.decrypt_data(self._decryptor, b\"\\x00\" * offset_small)\n"
      "        else:\n"
      "            self._decryptor = aes.create_decryptor(readkey)\n", "C40.14"),
    M("ctr-fast-path-small-offset", FI, _CTR,
      "        if offset < 16:\n"
      "            self._decryptor = aes.create_decryptor(readkey)\n"
      "            return\n" + _CTR, "C40.14"),
    M("ctr-residue-only-past-first-block", FI,
      "        aes.decrypt_data(self._decryptor, b\"\\x00\" * offset_small)\n",
      "        if offset >= 16:\n"
      "            aes.decrypt_data(self._decryptor, b\"\\x00\" * offset_small)\n", "C40.14"),
    M("ctr-default-iv-for-aligned", FI, _CTR,
      "        offset_big = offset // 16\n"
      "        offset_small = offset % 16\n"
      "        if offset_small:\n"
      "            iv = binascii.unhexlify(\"%032x\" % offset_big)\n"
      "            self._decryptor = aes.create_decryptor(readkey, iv)\n"
      "            aes.decrypt_data(self._decryptor, b\"\\x00\" * offset_small)\n"
      "        else:\n"
      "            self._decryptor = aes.create_decryptor(readkey)\n", "C40.14"),
    M("ctr-residue-is-block-number", FI,
      "        aes.decrypt_data(self._decryptor, b\"\\x00\" * offset_small)\n",
      "        aes.decrypt_data(self._decryptor, b\"\\x00\" * offset_big)\n", "C40.14"),
    M("ctr-decryptor-not-given-offset", FI,
      "        decryptor = DecryptingConsumer(consumer, self._readkey, offset)\n",
      "        decryptor = DecryptingConsumer(consumer, self._readkey, 0)\n", "C40.14"),
    M("benign-ctr-divmod", FI, _CTR,
      "        blocks, within = divmod(offset, 16)\n"
      "        counter = binascii.unhexlify(\"%032x\" % (blocks,))\n"
      "        dec = aes.create_decryptor(readkey, counter)\n"
      "        aes.decrypt_data(dec, within * b\"\\x00\")\n"
      "        self._decryptor = dec\n", None),
    M("benign-ctr-fast-path-offset-zero", FI, _CTR,
      "        if offset == 0:\n"
      "            self._decryptor = aes.create_decryptor(readkey)\n"
      "        else:\n"
      "            offset_big, offset_small = divmod(offset, 16)\n"
      "            iv = binascii.unhexlify(\"%032x\" % offset_big)\n"
      "            self._decryptor = aes.create_decryptor(readkey, iv)\n"
      "            aes.decrypt_data(self._decryptor, b\"\\x00\" * offset_small)\n", None),
    M("benign-ctr-residue-only-when-nonzero", FI,
      "        aes.decrypt_data(self._decryptor, b\"\\x00\" * offset_small)\n",
      "        if offset_small:\n"
      "            aes.decrypt_data(self._decryptor, b\"\\x00\" * offset_small)\n", None),
    M("benign-ctr-default-iv-first-block", FI, _CTR,
      "        offset_big = offset // 16\n"
      "        offset_small = offset % 16\n"
      "        if offset_big:\n"
      "            self._decryptor = aes.create_decryptor(readkey, binascii.unhexlify(\"%032x\" % offset_big))\n"
      "        else:\n"
      "            self._decryptor = aes.create_decryptor(readkey)\n"
      "        aes.decrypt_data(self._decryptor, b\"\\x00\" * offset_small)\n", None),
    # ---- C40.15 unsatisfiable is not invalid: a refusal is decided by the header text, never by the file size
    M("inverted-check-after-the-branches", F,          # the defect as it stood: 'N-' with N >= size, '-0' -> 200
      _EXPLICIT + "\n                return (first, last)\n",
      "                        last = int(last)\n\n"
      "                if last < first:\n                    raise ValueError\n\n"
      "                return (first, last)\n", "C40.15"),
    M("open-ended-checked-against-size", F, _OPEN,
      _OPEN + "                        if last < first:\n                            raise ValueError\n", "C40.15"),
    M("inverted-check-covers-open-ended", F,            # moved out of the explicit branch only
      _EXPLICIT + "\n                return (first, last)\n",
      "                        last = int(last)\n"
      "                    if last < first:\n                        raise ValueError\n\n"
      "                return (first, last)\n", "C40.15"),
    M("explicit-range-beyond-end-is-invalid", F, _EXPLICIT_CHECK,
      "                        if last < first or first >= filesize:\n"
      "                            raise ValueError\n", "C40.15"),
    M("suffix-longer-than-file-refused", F, _SUFFIX_GUARD,
      "                    suffix_length = int(last)\n"
      "                    if suffix_length < 0 or suffix_length > filesize:\n", "C40.15"),
    M("suffix-inverted-check", F, _SUFFIX_PAIR,
      _SUFFIX_PAIR + "                    if last < first:\n                        raise ValueError\n", "C40.15"),
    M("suffix-length-zero-refused", F, _SUFFIX_GUARD,
      "                    suffix_length = int(last)\n                    if suffix_length <= 0:\n", "C40.15"),
    M("suffix-length-below-one-refused", F, _SUFFIX_GUARD,
      "                    suffix_length = int(last)\n                    if suffix_length < 1:\n", "C40.15"),
    M("first-range-beyond-end-ignored", F, _RET_ALL,    # the same slip one level up: the 'ignore' value on the size
      "            ranges = [ parse_range(r.strip()) for r in rangeset.split(',') ]\n"
      "            if ranges[0][0] >= filesize:\n"
      "                return None\n"
      "            return ranges\n", "C40.15"),
    M("size-kept-on-self-decides", F,
      "        self.filename = filename\n\n    def parse_range_header",
      "        self.filename = filename\n        self.size = filenode.get_size()\n\n    def parse_range_header",
      "C40.15", edits=[(F, _OPEN, "                    if last == '':\n                        last = filesize - 1\n"
                        "                        if first > self.size - 1:\n"
                        "                            raise ValueError\n")]),
    M("benign-explicit-check-flipped", F, _EXPLICIT_CHECK,
      "                        if first > last:\n                            raise ValueError\n", None),
    M("benign-explicit-branch-first", F,
      _OPEN + "                    else:\n" + _EXPLICIT,
      "                    if last != '':\n"
      "                        last_pos = int(last)\n"
      "                        if not first <= last_pos:\n"
      "                            raise ValueError(\"last-byte-pos before first-byte-pos\")\n"
      "                        last = last_pos\n"
      "                    else:\n"
      "                        last = filesize - 1\n", None),
    M("benign-suffix-guard-renamed", F,
      _SUFFIX_GUARD + "                        # int() accepts a sign, the grammar does not\n"
      "                        raise ValueError\n" + _SUFFIX_PAIR,
      "                    n = int(last)\n"
      "                    if not n >= 0:\n"
      "                        raise ValueError(\"signed suffix-length\")\n"
      "                    first, last = filesize - n, filesize - 1\n", None),
    M("benign-suffix-guard-on-digits", F, _SUFFIX_GUARD,
      "                    suffix_length = int(last)\n                    if not last.isdigit():\n", None),
    M("benign-suffix-guard-via-first", F,              # filesize - n > filesize is a fact about n: the size cancels
      _SUFFIX_GUARD + "                        # int() accepts a sign, the grammar does not\n"
      "                        raise ValueError\n" + _SUFFIX_PAIR,
      "                    suffix_length = int(last)\n"
      "                    first = filesize - suffix_length\n"
      "                    if first > filesize:\n"
      "                        raise ValueError\n"
      "                    last = filesize - 1\n", None),
    M("benign-size-logged-in-open-branch", F, _OPEN,
      _OPEN + "                        if first >= filesize:\n"
      "                            self.beyond_end = True\n", None),
    M("vanish-render-http-exception", FC,
      "def _renderHTTP_exception(request, failure):", "def _renderHTTP_failure(request, failure):", "ANALYSIS-ERROR",
      edits=[(FC, "            _renderHTTP_exception(request, result),\n", "            _renderHTTP_failure(request, result),\n")]),
    # ---- vanished anchor
    M("vanish-mutable-version-read", FM,
      "    def read(self, consumer, offset=0, size=None, fetch_privkey=False):",
      "    def read_range(self, consumer, offset=0, size=None, fetch_privkey=False):", "ANALYSIS-ERROR"),
    M("vanish-parse-range", F,
      "            def parse_range(r):\n", "            def parse_one(r):\n", "ANALYSIS-ERROR",
      edits=[(F, _RET_ALL, "            return [ parse_one(r.strip()) for r in rangeset.split(',') ]\n")]),
    M("vanish-parse-range-header", F,
      "    def parse_range_header(self, range_header):", "    def parse_range_headerX(self, range_header):",
      "ANALYSIS-ERROR"),
]
