from .runner import M

F = "src/allmydata/web/filenode.py"

MUTANTS = [
    # ---- C40.1 announced = served
    M("length-off-by-one", F,
      "                    contentsize = last - first + 1\n", "                    contentsize = last - first\n", "C40.1"),
    M("read-to-eof-ignores-last", F,
      "        d = self.filenode.read(req, first, size)\n", "        d = self.filenode.read(req, first, None)\n", "C40.1"),
    M("size-announced-not-served", F,
      "                    size = contentsize\n", "                    size = contentsize - 1\n", "C40.1"),
    M("last-not-clipped", F,
      "                    last = min(filesize-1, last)\n", "", "C40.1"),
    M("first-not-clipped", F,
      "                    first = max(0, first)\n", "", "C40.1"),
    M("content-range-unclipped-last", F,
      "                    first = max(0, first)\n                    last = min(filesize-1, last)\n",
      "                    first = max(0, first)\n                    wanted_last = last\n"
      "                    last = min(filesize-1, last)\n",
      "C40.1", edits=[(F, "                                  (str(first), str(last),\n",
                       "                                  (str(first), str(wanted_last),\n")]),
    M("total-is-range-length", F,
      "                                   str(filesize)))\n                    contentsize = last - first + 1\n",
      "                                   str(last - first + 1)))\n                    contentsize = last - first + 1\n",
      "C40.1"),
    M("full-length-for-range", F,
      "        req.setHeader(\"content-length\", b\"%d\" % contentsize)\n",
      "        req.setHeader(\"content-length\", b\"%d\" % filesize)\n", "C40.1"),
    # ---- C40.2 status / 416 ordering
    M("416-only-beyond-end", F,
      "                if first >= filesize:\n", "                if first > filesize:\n", "C40.2"),
    M("206-dropped", F,
      "                    req.setResponseCode(http.PARTIAL_CONTENT)\n", "", "C40.2"),
    M("416-check-dropped", F,
      "                if first >= filesize:\n                    raise WebError('First beyond end of file',\n"
      "                                   http.REQUESTED_RANGE_NOT_SATISFIABLE)\n                else:\n",
      "                if True:\n", "C40.2"),
    M("unparsed-header-gets-206", F,
      "            if ranges is not None:\n                first, last = ranges[0]\n",
      "            if ranges is None:\n                ranges = [(0, filesize - 1)]\n            if True:\n"
      "                first, last = ranges[0]\n", "C40.2"),
    M("416-becomes-400", F,
      "                                   http.REQUESTED_RANGE_NOT_SATISFIABLE)\n",
      "                                   http.BAD_REQUEST)\n", "C40.2"),
    # ---- C40.3 HEAD
    M("head-before-content-length", F,
      "        req.setHeader(\"content-length\", b\"%d\" % contentsize)\n        if req.method == b\"HEAD\":\n"
      "            return b\"\"\n",
      "        if req.method == b\"HEAD\":\n            return b\"\"\n"
      "        req.setHeader(\"content-length\", b\"%d\" % contentsize)\n", "C40.3"),
    M("head-reads-body", F,
      "        if req.method == b\"HEAD\":\n            return b\"\"\n\n        d = self.filenode.read(req, first, size)\n",
      "        d = self.filenode.read(req, first, size)\n        if req.method == b\"HEAD\":\n            return b\"\"\n",
      "C40.3"),
    # ---- C40.4 parse_range_header
    M("units-not-checked", F,
      "            if units != 'bytes':\n                return None     # nothing else supported\n", "", "C40.4"),
    M("units-check-inverted", F,
      "            if units != 'bytes':\n", "            if units == 'bytes':\n", "C40.4"),
    M("bad-range-is-an-error", F,
      "        except ValueError:\n            return None\n",
      "        except ValueError:\n            raise WebError(\"bad Range header\", http.BAD_REQUEST)\n", "C40.4"),
    M("split-outside-try", F,
      "        try:\n            # byte-ranges-specifier\n            units, rangeset = range_header.split('=', 1)\n",
      "        units, rangeset = range_header.split('=', 1)\n        try:\n", "C40.4"),
    # ---- C40.5 parse_range
    M("inverted-range-accepted", F,
      "                if last < first:\n                    raise ValueError\n", "", "C40.5"),
    M("suffix-last-off-by-one", F,
      "                    first = filesize - int(last)\n                    last = filesize - 1\n",
      "                    first = filesize - int(last)\n                    last = filesize\n", "C40.5"),
    M("suffix-counts-from-start", F,
      "                    first = filesize - int(last)\n", "                    first = int(last)\n", "C40.5"),
    M("open-ended-last-is-first", F,
      "                    if last == '':\n                        last = filesize - 1\n",
      "                    if last == '':\n                        last = first\n", "C40.5"),
    M("inverted-raises-other-error", F,
      "                if last < first:\n                    raise ValueError\n",
      "                if last < first:\n                    raise IndexError\n", "C40.5"),
    # ---- C40.6 HEAD and GET share the renderer
    M("head-shortcut-for-immutable", F,
      "        filename = get_arg(req, b\"filename\", self.name) or \"unknown\"\n",
      "        if not self.node.is_mutable():\n"
      "            req.setHeader(\"content-length\", b\"%d\" % self.node.get_size())\n"
      "            return b\"\"\n"
      "        filename = get_arg(req, b\"filename\", self.name) or \"unknown\"\n", "C40.6"),
    M("head-on-node-not-version", F,
      "        filename = get_arg(req, b\"filename\", self.name) or \"unknown\"\n"
      "        d = self.node.get_best_readable_version()\n"
      "        d.addCallback(lambda dn: FileDownloader(dn, filename))\n",
      "        filename = get_arg(req, b\"filename\", self.name) or \"unknown\"\n"
      "        d = self.node.get_best_readable_version()\n"
      "        d.addCallback(lambda dn: FileDownloader(self.node, filename))\n", "C40.6"),
    # ---- benign
    M("benign-size-first", F,
      "                    contentsize = last - first + 1\n                    size = contentsize\n",
      "                    size = 1 + last - first\n                    contentsize = size\n", None),
    M("benign-not-lt", F,
      "                if first >= filesize:\n", "                if not first < filesize:\n", None),
    M("benign-truthy-ranges", F,
      "            if ranges is not None:\n", "            if ranges:\n", None),
    M("benign-head-flipped", F,
      "        if req.method == b\"HEAD\":\n", "        if b\"HEAD\" == req.method:\n", None),
    M("benign-if-clipping", F,
      "                    last = min(filesize-1, last)\n",
      "                    if last >= filesize:\n                        last = filesize - 1\n", None),
    M("benign-parse-range-renamed", F,
      "                if last < first:\n                    raise ValueError\n\n                return (first, last)\n",
      "                if not (first <= last):\n                    raise ValueError()\n\n"
      "                result = (first, last)\n                return result\n", None),
    M("benign-inline-format", F,
      "        req.setHeader(\"content-length\", b\"%d\" % contentsize)\n",
      "        req.setHeader(\"content-length\", str(contentsize))\n", None),
    M("benign-units-eq", F,
      "            if units != 'bytes':\n                return None     # nothing else supported\n",
      "            if not units == 'bytes':\n                return\n", None),
    M("benign-head-lambda-renamed", F,
      "        filename = get_arg(req, b\"filename\", self.name) or \"unknown\"\n"
      "        d = self.node.get_best_readable_version()\n"
      "        d.addCallback(lambda dn: FileDownloader(dn, filename))\n        return d\n",
      "        filename = get_arg(req, b\"filename\", self.name) or \"unknown\"\n"
      "        version_d = self.node.get_best_readable_version()\n"
      "        version_d.addCallback(lambda version: FileDownloader(version, filename))\n        return version_d\n", None),
    # ---- vanished anchor
    M("vanish-parse-range-header", F,
      "    def parse_range_header(self, range_header):", "    def parse_range_headerX(self, range_header):",
      "ANALYSIS-ERROR"),
]
