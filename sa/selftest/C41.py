from .runner import M

MF = "src/allmydata/mutable/filenode.py"
PUBF = "src/allmydata/mutable/publish.py"
DIRF = "src/allmydata/dirnode.py"
WF = "src/allmydata/web/filenode.py"
WD = "src/allmydata/web/directory.py"
WP = "src/allmydata/web/private.py"
WR = "src/allmydata/web/root.py"
HU = "src/allmydata/util/hashutil.py"

_PUB_UPDATE_GATE = (
    "        self._writekey = self._node.get_writekey()\n"
    "        assert self._writekey, \"need write capability to publish\"\n\n"
    "        # first, which servers will we publish to? We require that the\n"
    "        # servermap was updated in MODE_WRITE, so we can depend upon the\n"
    "        # serverlist computed by that process instead of computing our own.\n"
    "        assert self._servermap\n")
_PUB_PUBLISH_GATE = (
    "        self._writekey = self._node.get_writekey()\n"
    "        assert self._writekey, \"need write capability to publish\"\n\n"
    "        # first, which servers will we publish to? We require that the\n"
    "        # servermap was updated in MODE_WRITE, so we can depend upon the\n"
    "        # serverlist computed by that process instead of computing our own.\n"
    "        if self._servermap:\n")

NMF = "src/allmydata/nodemaker.py"
_UNPACK_HEAD = ("        writeable = not self.is_readonly()\n        mutable = self.is_mutable()\n"
                "        children = AuxValueDict()\n")
_UNPACK_TAIL = "                               facility=\"tahoe.webish\", level=log.UNUSUAL)\n\n        return children\n"
CLF = "src/allmydata/client.py"
_CL_ENTRY = "        return self.nodemaker.create_from_cap(write_uri, read_uri, deep_immutable=deep_immutable, name=name)\n"
_CL_INIT = "        self.nodemaker = NodeMaker(self.storage_broker,\n"
_NM_INIT = "        self._node_cache = weakref.WeakValueDictionary() # uri -> node\n"
_NM_STORE = "                self._node_cache[memokey] = node  # note: WeakValueDictionary\n"
_NM_MISS_TAIL = "\n            # node is None for an unknown URI, otherwise it is a type for which\n"
_NM_MISS = "            node = self._create_from_single_cap(cap)\n" + _NM_MISS_TAIL

MUTANTS = [
    # ---- C41.1 node-level gates
    M("publish-update-no-writekey-assert", PUBF, _PUB_UPDATE_GATE,
      _PUB_UPDATE_GATE.replace("        assert self._writekey, \"need write capability to publish\"\n", ""), "C41.1"),
    M("publish-no-writekey-assert", PUBF, _PUB_PUBLISH_GATE,
      _PUB_PUBLISH_GATE.replace("        assert self._writekey, \"need write capability to publish\"\n", ""), "C41.1"),
    M("publish-writekey-from-elsewhere", PUBF, _PUB_PUBLISH_GATE,
      _PUB_PUBLISH_GATE.replace("self._node.get_writekey()", "self._node.get_readkey()"), "C41.1"),
    M("version-overwrite-no-assert", MF,
      "        assert not self.is_readonly()\n\n        return self._do_serialized(self._overwrite, new_contents)\n",
      "        return self._do_serialized(self._overwrite, new_contents)\n", "C41.1"),
    M("version-modify-asserts-mutable", MF,
      "        assert not self.is_readonly()\n\n        return self._do_serialized(self._modify, modifier, backoffer)\n",
      "        assert self.is_mutable()\n\n        return self._do_serialized(self._modify, modifier, backoffer)\n",
      "C41.1"),
    M("version-is-readonly-wrong-field", MF,
      "        return self._writekey is None\n", "        return self._write_secrets is None\n", "C41.1"),
    M("readable-version-gets-writekey", MF,
      "                                     self._readkey,\n                                     history=self._history)\n"
      "            assert mfv.is_readonly()\n",
      "                                     self._readkey,\n                                     writekey=self._writekey,\n"
      "                                     history=self._history)\n", "C41.1"),
    M("mutable-version-no-readonly-fallback", MF,
      "        if self.is_readonly():\n            return self.get_readable_version(servermap=servermap,\n"
      "                                             version=version)\n", "", "C41.1"),
    # ---- C41.2 who may reach the write primitives
    M("node-modify-skips-gated-method", MF,
      "        d.addCallback(lambda mfv: mfv.modify(modifier, backoffer))\n",
      "        d.addCallback(lambda mfv: mfv._modify(modifier, backoffer))\n", "C41.2"),
    M("node-overwrite-uploads-directly", MF,
      "        d.addCallback(lambda mfv: mfv.overwrite(new_contents))\n",
      "        d.addCallback(lambda mfv: mfv._upload(new_contents))\n", "C41.2"),
    M("dirnode-publishes-itself", DIRF,
      "        d = self._node.modify(deleter.modify)\n        d.addCallback(lambda res: deleter.old_child)\n",
      "        d = self._node.get_best_mutable_version()\n"
      "        d.addCallback(lambda mfv: mfv._modify(deleter.modify, None))\n"
      "        d.addCallback(lambda res: deleter.old_child)\n", "C41.2"),
    # ---- C41.3 DirectoryNode refusals
    M("dir-delete-no-refusal", DIRF,
      "        if self.is_readonly():\n            return defer.fail(NotWriteableError())\n        deleter = Deleter(",
      "        deleter = Deleter(", "C41.3"),
    M("dir-mkdir-creates-before-refusal", DIRF,
      "        name = normalize(namex)\n        if self.is_readonly():\n            return defer.fail(NotWriteableError())\n"
      "        if mutable:\n",
      "        name = normalize(namex)\n        if mutable:\n", "C41.3"),
    M("dir-add-file-uploads-first", DIRF,
      "            if self.is_readonly():\n                d = DeferredContext(defer.fail(NotWriteableError()))\n"
      "            else:\n",
      "            if True:\n", "C41.3"),
    M("dir-move-ignores-readonly-target", DIRF,
      "        if self.is_readonly() or new_parent.is_readonly():\n", "        if self.is_readonly():\n", "C41.3"),
    M("dir-set-metadata-refusal-inverted", DIRF,
      "        name = normalize(namex)\n        if self.is_readonly():\n            return defer.fail(NotWriteableError())\n"
      "        assert isinstance(metadata, dict)\n",
      "        name = normalize(namex)\n        if not self.is_readonly():\n"
      "            return defer.fail(NotWriteableError())\n        assert isinstance(metadata, dict)\n", "C41.3"),
    # ---- C41.4 web layer uses the gated API only
    M("web-update-calls-private", WF,
      "            mv.update(added_contents, offset))\n", "            mv._update(added_contents, offset))\n",
      ["C41.4", "C41.2"]),
    M("web-set-children-on-backing-node", WD,
      "        d = self.node.set_children(cs, replace)\n",
      "        adder = dirnode.Adder(self.node, overwrite=replace)\n"
      "        d = self.node._node.modify(adder.modify)\n", "C41.4"),
    M("web-packs-directory-itself", WD,
      "        d = self.node.delete(name)\n        d.addCallback(lambda res: \"thing unlinked\")\n",
      "        d = self.node._node.overwrite(dirnode.pack_children({}, None))\n"
      "        d.addCallback(lambda res: \"thing unlinked\")\n", "C41.4"),
    # ---- C41.5 write-cap leakage
    M("json-rw-uri-from-get-uri", WD,
      "            rw_uri = childnode.get_write_uri()\n", "            rw_uri = childnode.get_uri()\n", "C41.5"),
    M("file-json-rw-uri-from-cap", WF,
      "    rw_uri = filenode.get_write_uri()\n", "    rw_uri = filenode.get_cap().to_string()\n", "C41.5"),
    M("dirnode-write-uri-ungated", DIRF,
      "    def get_write_uri(self):\n        if self.is_readonly():\n            return None\n"
      "        return self._uri.to_string()\n",
      "    def get_write_uri(self):\n        return self._uri.to_string()\n", "C41.5"),
    M("mutable-write-uri-gate-inverted", MF,
      "    def get_write_uri(self):\n        if self.is_readonly():\n            return None\n",
      "    def get_write_uri(self):\n        if not self.is_mutable():\n            return None\n", "C41.5"),
    M("decrypt-whenever-present", DIRF,
      "            if writeable:\n                rw_uri = self._decrypt_rwcapdata(rwcapdata)\n",
      "            if rwcapdata:\n                rw_uri = self._decrypt_rwcapdata(rwcapdata)\n", "C41.5"),
    M("readonly-uri-returns-uri", WF,
      "    if filenode.is_readonly():\n        return text_plain(filenode.get_uri(), req)\n"
      "    return text_plain(filenode.get_readonly_uri(), req)\n",
      "    return text_plain(filenode.get_uri(), req)\n", "C41.5"),
    M("dir-readonly-uri-returns-uri", WD,
      "    return text_plain(dirnode.get_readonly_uri(), req)\n", "    return text_plain(dirnode.get_uri(), req)\n",
      "C41.5"),
    # ---- C41.6 private area
    M("empty-token-grants", WP,
      "        if credentials.equals(required_token):\n", "        if credentials.equals(required_token) or not required_token:\n",
      "C41.6"),
    M("token-plain-compare", WP,
      "        return timing_safe_compare(\n            valid_token,\n            self.proposed_token,\n        )\n",
      "        return valid_token == self.proposed_token\n", "C41.6"),
    M("token-compares-with-itself", WP,
      "        return timing_safe_compare(\n            valid_token,\n            self.proposed_token,\n        )\n",
      "        return timing_safe_compare(\n            self.proposed_token,\n            self.proposed_token,\n        )\n",
      "C41.6"),
    M("timing-safe-is-plain-eq", HU,
      "    return bool(tagged_hash(n, a) == tagged_hash(n, b))\n", "    return bool(a == b)\n", "C41.6"),
    M("private-tree-unwrapped", WP,
      "    return HTTPAuthSessionWrapper(portal, [TokenCredentialFactory()])\n", "    return vulnerable\n", "C41.6"),
    M("root-mounts-unguarded-tree", WR,
      "    create_private_tree,\n)\n", "    create_private_tree,\n    _create_vulnerable_tree,\n)\n", "C41.6",
      edits=[(WR, "        self.putChild(b\"private\", create_private_tree(client.get_auth_token))\n",
              "        self.putChild(b\"private\", _create_vulnerable_tree())\n")]),
    # ---- C41.8 the read-only answers themselves (added in the gap review)
    # a writeable child's full cap would be packed in clear into the parent's read-only slot: a holder of the
    # parent's read cap then gets a writeable child node (create_from_cap(None, <write cap>)) and its rw_uri
    M("dirnode-readonly-uri-is-full-uri", DIRF,
      "    def get_readonly_uri(self):\n        return self._uri.get_readonly().to_string()\n",
      "    def get_readonly_uri(self):\n        return self._uri.to_string()\n", "C41.8"),
    M("mutable-readonly-uri-is-get-uri", MF,
      "    def get_readonly_uri(self):\n        return self._uri.get_readonly().to_string()\n",
      "    def get_readonly_uri(self):\n        return self.get_uri()\n", "C41.8"),
    M("mutable-readonly-uri-shortcut-inverted", MF,
      "    def get_readonly_uri(self):\n        return self._uri.get_readonly().to_string()\n",
      "    def get_readonly_uri(self):\n        if not self.is_readonly():\n            return self._uri.to_string()\n"
      "        return self._uri.get_readonly().to_string()\n", "C41.8"),
    M("benign-readonly-uri-shortcut-when-readonly", MF,
      "    def get_readonly_uri(self):\n        return self._uri.get_readonly().to_string()\n",
      "    def get_readonly_uri(self):\n        if self.is_readonly():\n            return self._uri.to_string()\n"
      "        return self._uri.get_readonly().to_string()\n", None),
    # read-only confused with immutable: every mutable directory claims to be writeable, so mkdir / upload below
    # a read-only directory create objects on the grid before the backing file refuses the link
    M("dirnode-is-readonly-means-immutable", DIRF,
      "    def is_readonly(self):\n        return self._node.is_readonly()\n",
      "    def is_readonly(self):\n        return not self._node.is_mutable()\n", "C41.8"),
    M("mutable-node-is-readonly-only-some-paths", MF,
      "    def is_readonly(self):\n        return self._uri.is_readonly()\n\n    def is_unknown(self):",
      "    def is_readonly(self):\n        if self._writekey is None:\n            return self._uri.is_readonly()\n\n"
      "    def is_unknown(self):", "C41.8"),
    M("benign-readonly-uri-via-local", DIRF,
      "    def get_readonly_uri(self):\n        return self._uri.get_readonly().to_string()\n",
      "    def get_readonly_uri(self):\n        readcap = self._uri.get_readonly()\n        return readcap.to_string()\n",
      None),
    M("benign-readonly-uri-via-get-readcap", MF,
      "    def get_readonly_uri(self):\n        return self._uri.get_readonly().to_string()\n",
      "    def get_readonly_uri(self):\n        return self.get_readcap().to_string()\n", None),
    M("benign-dirnode-is-readonly-from-own-cap", DIRF,
      "    def is_readonly(self):\n        return self._node.is_readonly()\n",
      "    def is_readonly(self):\n        readonly = self._uri.is_readonly()\n        return readonly\n", None),
    M("benign-immutable-readonly-uri-direct", "src/allmydata/immutable/filenode.py",
      "    def get_readonly_uri(self):\n        return self.get_uri()\n",
      "    def get_readonly_uri(self):\n        return self.u.to_string()\n", None),
    # ---- C41.7 further shared necessary conditions adopted from C18 (C18.2 packer, C18.6 node writekey)
    M("packer-ro-slot-full-cap", DIRF,
      "            ro_uri = child.get_readonly_uri()\n", "            ro_uri = child.get_uri()\n", "C41.7"),
    # Publish's `assert self._writekey` (C41.1) would pass for every read-only node
    M("node-writekey-falls-back-to-readkey", MF,
      "    def get_writekey(self):\n        return self._writekey\n    def get_readkey(self):",
      "    def get_writekey(self):\n        return self._writekey or self._readkey\n    def get_readkey(self):", "C41.7"),
    M("benign-get-writekey-local", MF,
      "    def get_writekey(self):\n        return self._writekey\n    def get_readkey(self):",
      "    def get_writekey(self):\n        writekey = self._writekey\n        return writekey\n    def get_readkey(self):",
      None),
    # ---- benign
    M("benign-avatar-refusal-via-local", WP,
      "        return fail(Failure(UnauthorizedLogin()))\n",
      "        refusal = fail(Failure(UnauthorizedLogin()))\n        return refusal\n", None),
    M("benign-prohibited-write-uri-via-local", "src/allmydata/blacklist.py",
      "        return self.wrapped_node.get_write_uri()\n",
      "        rw_uri = self.wrapped_node.get_write_uri()\n        return rw_uri\n", None),
    M("benign-timing-safe-via-local", HU,
      "    return bool(tagged_hash(n, a) == tagged_hash(n, b))\n",
      "    same = bool(tagged_hash(n, a) == tagged_hash(n, b))\n    return same\n", None),
    M("benign-realm-answer-via-local", WP,
      "            return (IResource, self._root, self._logout)\n",
      "            answer = (IResource, self._root, self._logout)\n            return answer\n", None),
    M("benign-refusal-via-local", DIRF,
      "        if self.is_readonly():\n            return defer.fail(NotWriteableError())\n        deleter = Deleter(",
      "        readonly = self.is_readonly()\n        if readonly:\n            return defer.fail(NotWriteableError())\n"
      "        deleter = Deleter(", None),
    M("benign-assert-message", MF,
      "        assert not self.is_readonly()\n\n        return self._do_serialized(self._overwrite, new_contents)\n",
      "        assert not self.is_readonly(), \"read-only version\"\n\n"
      "        result = self._do_serialized(self._overwrite, new_contents)\n        return result\n", None),
    M("benign-avatar-early-fail", WP,
      "        if credentials.equals(required_token):\n            return succeed(ANONYMOUS)\n"
      "        return fail(Failure(UnauthorizedLogin()))\n",
      "        if not credentials.equals(required_token):\n            return fail(Failure(UnauthorizedLogin()))\n"
      "        return succeed(ANONYMOUS)\n", None),
    M("benign-json-local-renamed", WD,
      "            rw_uri = childnode.get_write_uri()\n            ro_uri = childnode.get_readonly_uri()\n",
      "            ro_uri = childnode.get_readonly_uri()\n            rw_uri = childnode.get_write_uri()\n", None),
    M("benign-publish-explicit-raise", PUBF, _PUB_UPDATE_GATE,
      _PUB_UPDATE_GATE.replace("        assert self._writekey, \"need write capability to publish\"\n",
                               "        if not self._writekey:\n"
                               "            raise AssertionError(\"need write capability to publish\")\n"), None),
    M("benign-is-readonly-falsy", MF,
      "        return self._writekey is None\n", "        return not self._writekey\n", None),
    M("benign-write-uri-else", DIRF,
      "    def get_write_uri(self):\n        if self.is_readonly():\n            return None\n"
      "        return self._uri.to_string()\n",
      "    def get_write_uri(self):\n        if not self.is_readonly():\n            return self._uri.to_string()\n"
      "        return None\n", None),
    # ---- vanished anchor
    M("vanish-unpack-contents", DIRF,
      "    def _unpack_contents(self, data):", "    def _unpack_contentsX(self, data):", "ANALYSIS-ERROR"),
    # ---- C41.7 (node-cache key, shared with C18.5; added after seeded change C41-B)
    M("cache-keyed-by-readcap-first", NMF,
      "        bigcap = writecap or readcap\n", "        bigcap = readcap or writecap\n", "C41.7"),
    # ---- C41.7.11 (= C18.11, adopted after seeded change C41-H): what _unpack_contents hands out was unpacked by
    # this node, or remembered under a key that names the node's writeability
    M("unpack-memo-keyed-by-contents", DIRF, _UNPACK_HEAD,
      "        cachekey = (self.get_storage_index(), hashutil.tagged_hash(b\"unpack-memo\", data))\n"
      "        cached = _unpack_memo.get(cachekey)\n"
      "        if cached is not None:\n"
      "            return cached\n" + _UNPACK_HEAD, "C41.7.11",
      edits=[(DIRF, "ZERO_LEN_NETSTR=netstring(b'')\n", "ZERO_LEN_NETSTR=netstring(b'')\n_unpack_memo = {}\n"),
             (DIRF, _UNPACK_TAIL, _UNPACK_TAIL.replace("        return children\n",
                                                       "        _unpack_memo[cachekey] = children\n        return children\n"))],
      note="seeded C41-H: children unpacked through the write cap (decrypted rw_uri) are served to a read-only node"),
    M("unpack-memo-on-backing-node", DIRF, _UNPACK_HEAD,
      "        last = getattr(self._node, \"_last_unpacked\", None)\n"
      "        if last is not None and last[0] == data:\n"
      "            return last[1]\n" + _UNPACK_HEAD, "C41.7.11",
      edits=[(DIRF, _UNPACK_TAIL, _UNPACK_TAIL.replace("        return children\n",
                                                       "        self._node._last_unpacked = (data, children)\n        return children\n"))],
      note="the memo rides on the backing file node, which C41.9 lets the nodemaker share only between equal caps - but "
           "here it is read without asking: caught as 'attribute of the node'"),
    M("benign-unpack-memo-keyed-by-writeability", DIRF, _UNPACK_HEAD,
      "        writeable = not self.is_readonly()\n"
      "        cachekey = (self.get_storage_index(), writeable, hashutil.tagged_hash(b\"unpack-memo\", data))\n"
      "        cached = _unpack_memo.get(cachekey)\n"
      "        if cached is not None:\n"
      "            return cached\n"
      "        mutable = self.is_mutable()\n        children = AuxValueDict()\n", None,
      edits=[(DIRF, "ZERO_LEN_NETSTR=netstring(b'')\n", "ZERO_LEN_NETSTR=netstring(b'')\n_unpack_memo = {}\n"),
             (DIRF, _UNPACK_TAIL, _UNPACK_TAIL.replace("        return children\n",
                                                       "        _unpack_memo[cachekey] = children\n        return children\n"))]),
    # ---- C41.9 (added after seeded change C41-G): the node answered for a cap was made from that cap
    M("slot-cache-keyed-by-verifycap", NMF, _NM_MISS,
      "            slotkey = self._slot_key(cap)\n"
      "            node = self._slot_cache.get(slotkey)\n"
      "            if node is None:\n"
      "                node = self._create_from_single_cap(cap)\n" + _NM_MISS_TAIL, "C41.9",
      edits=[(NMF, _NM_INIT, _NM_INIT + "        self._slot_cache = weakref.WeakValueDictionary()\n"),
             (NMF, _NM_STORE, _NM_STORE + "                if slotkey is not None:\n"
                                          "                    self._slot_cache[slotkey] = node\n"),
             (NMF, "    def _create_from_single_cap(self, cap):\n",
              "    def _slot_key(self, cap):\n        verifycap = cap.get_verify_cap()\n"
              "        if verifycap is None:\n            return None\n        return verifycap.to_string()\n\n"
              "    def _create_from_single_cap(self, cap):\n")],
      note="seeded C41-G: one live node per slot, so a read-only / verify cap is answered with the writeable node"),
    M("mutable-nodes-shared-by-storage-index", NMF,
      "        return n.init_from_cap(cap)\n",
      "        live = _LIVE_MUTABLE.get(cap.get_storage_index())\n"
      "        if live is not None:\n            return live\n"
      "        node = n.init_from_cap(cap)\n"
      "        _LIVE_MUTABLE[cap.get_storage_index()] = node\n        return node\n", "C41.9",
      edits=[(NMF, "@implementer(INodeMaker)\nclass NodeMaker:",
              "_LIVE_MUTABLE = weakref.WeakValueDictionary()\n\n@implementer(INodeMaker)\nclass NodeMaker:")],
      note="same effect one level down, in a module-level index behind _create_from_single_cap"),
    M("dirnodes-shared-by-filenode-slot", NMF,
      "    def _create_dirnode(self, filenode):\n        return DirectoryNode(filenode, self, self.uploader)\n",
      "    def _create_dirnode(self, filenode):\n        si = filenode.get_storage_index()\n"
      "        dirnode = self._dirnodes.get(si)\n        if dirnode is None:\n"
      "            dirnode = self._dirnodes[si] = DirectoryNode(filenode, self, self.uploader)\n"
      "        return dirnode\n", "C41.9",
      edits=[(NMF, _NM_INIT, _NM_INIT + "        self._dirnodes = weakref.WeakValueDictionary()\n")]),
    M("class-level-node-index", NMF,
      "        return n.init_from_cap(cap)\n",
      "        node = NodeMaker._live.get(cap.storage_index)\n"
      "        if node is None:\n"
      "            node = NodeMaker._live[cap.storage_index] = n.init_from_cap(cap)\n        return node\n", "C41.9",
      edits=[(NMF, "@implementer(INodeMaker)\nclass NodeMaker:\n",
              "@implementer(INodeMaker)\nclass NodeMaker:\n    _live = weakref.WeakValueDictionary()\n")]),
    M("writeable-node-filed-under-readcap-too", NMF,
      "        return n.init_from_cap(cap)\n",
      "        node = n.init_from_cap(cap)\n"
      "        self._node_cache[b\"M\" + node.get_readonly_uri()] = node\n        return node\n", "C41.9",
      note="another filler of the memo create_from_cap answers from: the writeable node is pre-filed under its read cap"),
    M("gateway-entry-remembers-by-either-cap", CLF, _CL_ENTRY,
      "        key = read_uri or write_uri\n"
      "        node = self._recent_nodes.get(key)\n"
      "        if node is None:\n"
      "            node = self._recent_nodes[key] = self.nodemaker.create_from_cap(\n"
      "                write_uri, read_uri, deep_immutable=deep_immutable, name=name)\n"
      "        return node\n", "C41.9",
      edits=[(CLF, _CL_INIT, "        self._recent_nodes = weakref.WeakValueDictionary()\n" + _CL_INIT)],
      note="sibling site, the gateway's own entry point: the node made for (write cap, read cap) is found by (None, read cap)"),
    M("gateway-entry-drops-write-slot-order", CLF, _CL_ENTRY,
      "        return self.nodemaker.create_from_cap(read_uri, write_uri, deep_immutable=deep_immutable, name=name)\n",
      "C41.9"),
    M("node-cache-second-index-by-readcap-first", NMF,
      "            node = self._node_cache[memokey]\n",
      "            node = self._by_readcap.get(readcap or writecap) or self._node_cache[memokey]\n", "C41.9",
      edits=[(NMF, _NM_INIT, _NM_INIT + "        self._by_readcap = weakref.WeakValueDictionary()\n"),
             (NMF, _NM_STORE, _NM_STORE + "                self._by_readcap[readcap or writecap] = node\n")],
      note="a key made of the given strings that still does not determine `writecap or readcap`"),
    M("benign-gateway-entry-remembers-by-both-slots", CLF, _CL_ENTRY,
      "        key = (write_uri, read_uri, deep_immutable)\n"
      "        node = self._recent_nodes.get(key)\n"
      "        if node is None:\n"
      "            node = self._recent_nodes[key] = self.nodemaker.create_from_cap(\n"
      "                write_uri, read_uri, deep_immutable=deep_immutable, name=name)\n"
      "        return node\n", None,
      edits=[(CLF, _CL_INIT, "        self._recent_nodes = weakref.WeakValueDictionary()\n" + _CL_INIT)]),
    M("benign-gateway-entry-via-local", CLF, _CL_ENTRY,
      "        nodemaker = self.nodemaker\n"
      "        node = nodemaker.create_from_cap(write_uri, read_uri, deep_immutable=deep_immutable, name=name)\n"
      "        return node\n", None),
    M("benign-cache-lookup-with-get", NMF,
      "        try:\n            node = self._node_cache[memokey]\n        except KeyError:\n",
      "        node = self._node_cache.get(memokey)\n        if node is None:\n", None),
    M("benign-second-cache-keyed-by-full-cap", NMF,
      "            node = self._node_cache[memokey]\n",
      "            node = self._recent.get(memokey) or self._node_cache[memokey]\n", None,
      edits=[(NMF, _NM_INIT, _NM_INIT + "        self._recent = {}\n"),
             (NMF, _NM_STORE, _NM_STORE + "                self._recent[memokey] = node\n")]),
    M("benign-slot-cache-keyed-by-cap-class-too", NMF, _NM_MISS,
      "            slotkey = (cap.__class__, cap.get_verify_cap())\n"
      "            node = self._slot_cache.get(slotkey)\n"
      "            if node is None:\n"
      "                node = self._create_from_single_cap(cap)\n" + _NM_MISS_TAIL, None,
      edits=[(NMF, _NM_INIT, _NM_INIT + "        self._slot_cache = weakref.WeakValueDictionary()\n"),
             (NMF, _NM_STORE, _NM_STORE + "                self._slot_cache[slotkey] = node\n")],
      note="the seeded second index, but partitioned by the class of the cap (write / read / verify caps of a slot are "
           "different classes): nodes are shared only between caps of equal authority"),
    M("benign-store-through-helper", NMF, _NM_STORE, "                self._remember(memokey, node)\n", None,
      edits=[(NMF, "    def _create_from_single_cap(self, cap):\n",
              "    def _remember(self, key, node):\n        self._node_cache[key] = node\n\n"
              "    def _create_from_single_cap(self, cap):\n")]),
    M("benign-dirnode-steps-hoisted", NMF,
      "            filenode = self._create_from_single_cap(cap.get_filenode_cap())\n"
      "            return self._create_dirnode(filenode)\n",
      "            filenode_cap = cap.get_filenode_cap()\n"
      "            backing = self._create_from_single_cap(filenode_cap)\n"
      "            dirnode = self._create_dirnode(backing)\n            return dirnode\n", None),
    M("benign-mutable-node-via-local", NMF,
      "        return n.init_from_cap(cap)\n", "        node = n.init_from_cap(cap)\n        return node\n", None),
]

# ---- round 7: refactors seeded for other properties (C16-I, C19-I, C18-I), done faithfully, must leave C41.9 silent;
# the snippets are the owners' (one source of truth for the refactored shape)
from . import C16 as _S16, C18 as _S18, C19 as _S19      # noqa: E402

UF = "src/allmydata/uri.py"
_TABLE_EDITS = [(NMF, _S19.NM_DIRNODE, _S19.NM_DIRNODE_FROM_CAP), (NMF, _S19.NM_CHAIN, _S19.NM_LOOP)]
_LIVE_BY_SI = ("        live = _LIVE_MUTABLE.get(cap.get_storage_index())\n"
               "        if live is not None:\n            return live\n"
               "        node = n.init_from_cap(cap)\n"
               "        _LIVE_MUTABLE[cap.get_storage_index()] = node\n        return node\n")

MUTANTS += [
    M("benign-uri-from-string-table-driven", UF, _S16.FS_CHAIN, _S16._fs_table(), None,
      note="C16-I done faithfully: uri.from_string walks a module-level constant table of (prefix, class, ..) rows; a "
           "constant table is not a memory of earlier calls"),
    M("benign-node-factory-table", NMF, _S19.NM_IMPORT, _S19.nm_table("ReadonlyMDMFDirectoryURI"), None,
      edits=_TABLE_EDITS,
      note="C19-I done faithfully: _create_from_single_cap dispatches through getattr(self, <name out of a constant table>)"),
    M("benign-node-factory-dict-by-type", NMF, _S19.NM_IMPORT, _S19.NM_DICT % "ReadonlyMDMFDirectoryURI", None,
      edits=[(NMF, _S19.NM_CHAIN, _S19.NM_DICT_DISPATCH)]),
    M("factory-table-mutable-nodes-shared-by-storage-index", NMF, _S19.NM_IMPORT,
      _S19.nm_table("ReadonlyMDMFDirectoryURI").replace(
          "@implementer(INodeMaker)\n", "_LIVE_MUTABLE = weakref.WeakValueDictionary()\n\n@implementer(INodeMaker)\n"),
      "C41.9", edits=_TABLE_EDITS + [(NMF, "        return n.init_from_cap(cap)\n", _LIVE_BY_SI)],
      note="the table-driven factory, and the method it reaches through getattr answers with the live node of the slot: "
           "the walk must follow the table's method names"),
    M("factory-table-plain-dict-filled-by-storage-index", NMF, _S19.NM_IMPORT,
      _S19.nm_table("ReadonlyMDMFDirectoryURI").replace(
          "@implementer(INodeMaker)\n", "_LIVE_MUTABLE = {}\n\n@implementer(INodeMaker)\n"),
      "C41.9", edits=_TABLE_EDITS + [(NMF, "        return n.init_from_cap(cap)\n", _LIVE_BY_SI)],
      note="a module-level dict display that somebody fills is state, not a constant table"),
    M("factory-table-rows-appended-at-runtime", NMF, _S19.NM_IMPORT,
      _S19.nm_table("ReadonlyMDMFDirectoryURI").replace(
          "@implementer(INodeMaker)\n",
          "def register_node_factory(name, classes):\n    _NODE_FACTORIES.insert(0, (name, classes))\n\n\n"
          "@implementer(INodeMaker)\n"),
      "ANALYSIS-ERROR", edits=_TABLE_EDITS,
      note="the table is extended at run time: no longer a constant, which methods make the node cannot be told"),
    M("benign-create-from-cap-split-into-helpers", NMF, _S18._CFC_OLD, _S18._CFC_SPLIT, None,
      note="C18-I done faithfully: the memo key made by a @staticmethod helper handed (writecap, readcap)"),
    M("split-memokey-helper-prefers-readcap", NMF, _S18._CFC_OLD,
      _S18._CFC_SPLIT.replace(_S18._SIG_OK, "    def _memokey(readcap, writecap, deep_immutable):\n"), "C41.9",
      note="seeded C18-I: the helper's parameters are declared in the other order, so the key is readcap-first and the "
           "writeable node is found by the read cap"),
    M("split-memokey-helper-keyed-by-readcap-body", NMF, _S18._CFC_OLD,
      _S18._CFC_SPLIT.replace("        return prefix + (writecap or readcap)\n",
                              "        return prefix + (readcap or writecap)\n"), "C41.9"),
    M("split-uncached-helper-remembers-by-readcap", NMF, _S18._CFC_OLD,
      _S18._CFC_SPLIT.replace(
          "        cap = uri.from_string(writecap or readcap, deep_immutable=deep_immutable,\n",
          "        known = self._by_readcap.get(readcap or writecap)\n"
          "        if known is not None:\n            return known\n"
          "        cap = uri.from_string(writecap or readcap, deep_immutable=deep_immutable,\n"), "C41.9",
      edits=[(NMF, _NM_INIT, _NM_INIT + "        self._by_readcap = weakref.WeakValueDictionary()\n")],
      note="a second memo inside the extracted helper, looked up readcap-first"),
    M("benign-split-uncached-helper-remembers-by-full-cap", NMF, _S18._CFC_OLD,
      _S18._CFC_SPLIT.replace(
          "        cap = uri.from_string(writecap or readcap, deep_immutable=deep_immutable,\n",
          "        known = self._by_cap.get((deep_immutable, writecap or readcap))\n"
          "        if known is not None:\n            return known\n"
          "        cap = uri.from_string(writecap or readcap, deep_immutable=deep_immutable,\n"), None,
      edits=[(NMF, _NM_INIT, _NM_INIT + "        self._by_cap = weakref.WeakValueDictionary()\n")],
      note="the same memo keyed by the cap the node is made from: the slot kinds are carried into the helper"),
]
