from .runner import M

B = "src/allmydata/scripts/backupdb.py"
T = "src/allmydata/scripts/tahoe_backup.py"

GATE = ("        if ((last_size != size\n             or not use_timestamps\n             or last_mtime != mtime\n"
        "             or last_ctime != ctime) # the file has been changed\n")

SELID = ("        c.execute(\"SELECT fileid FROM caps WHERE filecap=?\", (filecap,))\n"
         "        foundrow = c.fetchone()\n        assert foundrow\n        fileid = foundrow[0]\n")
GETID = ("        try:\n            c.execute(\"INSERT INTO caps (filecap) VALUES (?)\", (filecap,))\n"
         "        except (self.sqlite_module.IntegrityError, self.sqlite_module.OperationalError):\n"
         "            # sqlite3 on sid gives IntegrityError\n"
         "            # pysqlite2 (which we don't use, so maybe no longer relevant) on dapper gives OperationalError\n"
         "            pass\n" + SELID + "        return fileid\n")

MUTANTS = [
    # ---- C42.1 gate of check_file
    M("gate-ctime-dropped", B, GATE,
      "        if ((last_size != size\n             or not use_timestamps\n             or last_mtime != mtime) # the file has been changed\n",
      "C42.1"),
    M("gate-size-dropped", B, GATE,
      "        if ((not use_timestamps\n             or last_mtime != mtime\n             or last_ctime != ctime) # the file has been changed\n",
      "C42.1"),
    M("gate-timestamps-trusted-always", B, GATE,
      "        if ((last_size != size\n             or last_mtime != mtime\n             or last_ctime != ctime) # the file has been changed\n",
      "C42.1"),
    M("gate-and-instead-of-or", B, GATE,
      "        if ((last_size != size\n             and not use_timestamps\n             and last_mtime != mtime\n"
      "             and last_ctime != ctime) # the file has been changed\n", "C42.1"),
    M("gate-unpack-order", B,
      "        (last_size,last_mtime,last_ctime,last_fileid) = row\n", "        (last_size,last_ctime,last_mtime,last_fileid) = row\n",
      ["C42.1"]),
    M("gate-select-order", B,
      '        c.execute("SELECT size,mtime,ctime,fileid"', '        c.execute("SELECT mtime,size,ctime,fileid"', "C42.1"),
    M("gate-stat-field-typo", B,
      "        ctime = s[stat.ST_CTIME]\n", "        ctime = s[stat.ST_MTIME]\n", "C42"),
    M("gate-compares-stat-with-itself", B,
      "             or last_mtime != mtime\n", "             or mtime != mtime\n", "C42.1"),
    M("gate-cap-of-other-record", B,
      '                  " WHERE caps.fileid=? AND last_upload.fileid=?",\n                  (last_fileid, last_fileid))',
      '                  " WHERE caps.fileid=last_upload.fileid")', "C42.1"),
    M("path-not-absolute", B,
      "        path = abspath_expanduser_unicode(path)\n\n        # TODO: consider using get_pathinfo.", "        # TODO: consider using get_pathinfo.",
      "C42"),
    # ---- C42.2 placeholder <-> value
    M("insert-tuple-order", B,
      "                                (path, size, mtime, ctime, fileid))", "                                (path, size, ctime, mtime, fileid))",
      "C42.2"),
    M("update-tuple-order", B,
      "                                (size, mtime, ctime, fileid, path))", "                                (size, mtime, ctime, path, fileid))",
      "C42.2"),
    M("update-set-order", B,
      '                                " SET size=?, mtime=?, ctime=?, fileid=?"', '                                " SET mtime=?, size=?, ctime=?, fileid=?"',
      "C42.2"),
    M("did-upload-args-swapped", B,
      "                                 self.mtime, self.ctime, self.size)", "                                 self.ctime, self.mtime, self.size)",
      "C42.2"),
    M("fileresult-ctor-args-swapped", B,
      "        return FileResult(self, to_bytes(filecap), should_check,\n                          path, mtime, ctime, size)",
      "        return FileResult(self, to_bytes(filecap), should_check,\n                          path, ctime, mtime, size)", "C42.2"),
    M("fileresult-init-attrs-crossed", B,
      "        self.mtime = mtime\n        self.ctime = ctime\n", "        self.mtime = ctime\n        self.ctime = mtime\n", "C42.2"),
    M("dir-replace-order", B,
      "                            (dirhash, dircap, now, now))", "                            (dircap, dirhash, now, now))", "C42.2"),
    M("dir-did-create-args-swapped", B,
      "        self.bdb.did_create_directory(dircap, self.dirhash)", "        self.bdb.did_create_directory(self.dirhash, dircap)", "C42.2"),
    M("dir-healthy-wrong-column", B,
      '                            " WHERE dircap=?",\n                            (now, dircap))',
      '                            " WHERE dirhash=?",\n                            (now, dircap))', "C42.2"),
    M("dir-result-returns-hash-as-cap", B,
      "        return DirectoryResult(self, dirhash_s, to_bytes(dircap), should_check)",
      "        return DirectoryResult(self, to_bytes(dircap), dirhash_s, should_check)", "C42.2"),
    M("dir-select-order", B,
      '        c.execute("SELECT dircap, last_checked"', '        c.execute("SELECT last_checked, dircap"', "C42.2"),
    M("last-upload-insert-order", B,
      "                                (fileid, now, now))", "                                (now, fileid, now))", "C42.2"),
    M("healthy-update-order", B,
      '                            " WHERE fileid=?",\n                            (now, fileid))',
      '                            " WHERE fileid=?",\n                            (fileid, now))', "C42.2"),
    # ---- C42.3 directory key
    M("dirhash-names-only", B,
      '        data = b"".join([netstring(name_utf8)+netstring(cap)', '        data = b"".join([netstring(name_utf8)', "C42.3"),
    M("dirhash-unframed-name", B,
      '        data = b"".join([netstring(name_utf8)+netstring(cap)', '        data = b"".join([name_utf8+netstring(cap)', "C42.3"),
    M("dirhash-skips-empty-caps", B,
      "                         for (name_utf8,cap) in entries])", "                         for (name_utf8,cap) in entries if cap])", "C42.3"),
    M("dirhash-skips-hidden", B,
      "        for name in contents:\n            entries.append(",
      "        for name in contents:\n            if name.startswith(\".\"):\n                continue\n            entries.append(", "C42.3"),
    M("dirhash-key-not-hashed", B,
      "        dirhash_s = base32.b2a(dirhash)\n", "        dirhash_s = base32.b2a(data[:32])\n", "C42"),
    M("dirhash-truncated", B,
      "        entries.sort()\n", "        entries.sort()\n        entries.pop()\n", "C42.3"),
    # ---- C42.4 tahoe_backup
    M("tb-skip-without-cap", T,
      "        if not r.was_uploaded():\n            return True, r\n\n        if not r.should_check():\n            # the file was uploaded or checked recently, so we can just use\n            # it\n            return False, r\n\n        # we must check the file",
      "        if not r.should_check():\n            # the file was uploaded or checked recently, so we can just use\n            # it\n            return False, r\n\n        # we must check the file",
      "C42.4"),
    M("tb-timestamps-polarity", T,
      '        use_timestamps = not self.options["ignore-timestamps"]', '        use_timestamps = self.options["ignore-timestamps"]', "C42.4"),
    M("tb-timestamps-not-passed", T,
      "        r = self.backupdb.check_file(childpath, use_timestamps)", "        r = self.backupdb.check_file(childpath)", "C42.4"),
    M("tb-branch-flipped", T,
      "        if must_upload:\n            self.verboseprint(\"uploading %s..\"", "        if not must_upload:\n            self.verboseprint(\"uploading %s..\"",
      "C42.4"),
    M("tb-dir-skip-without-cap", T,
      "        if not r.was_created():\n            return True, r\n", "        if r is None:\n            return True, r\n", "C42.4"),
    M("tb-records-old-cap", T,
      "                bdb_results.did_upload(filecap)", "                bdb_results.did_upload(bdb_results.was_uploaded() or filecap)", "C42.4"),
    # ---- behaviour-preserving
    M("benign-rename-and-not-eq", B, GATE,
      "        if ((not (size == last_size)\n             or not use_timestamps\n             or not last_mtime == mtime\n"
      "             or last_ctime != ctime) # the file has been changed\n", None),
    M("benign-hoisted-temporaries", B, GATE,
      "        same_size = (last_size == size)\n        mtime_changed = last_mtime != mtime\n"
      "        if ((not same_size\n             or not use_timestamps\n             or mtime_changed\n"
      "             or last_ctime != ctime) # the file has been changed\n", None),
    M("benign-early-returns", B,
      GATE + "            or (not row2) # we somehow forgot where we put the file last time\n            ):\n"
      "            c.execute(\"DELETE FROM local_files WHERE path=?\", (path,))\n            self.connection.commit()\n"
      "            return FileResult(self, None, False, path, mtime, ctime, size)\n",
      "        def stale():\n            c.execute(\"DELETE FROM local_files WHERE path=?\", (path,))\n            self.connection.commit()\n"
      "            return FileResult(self, None, False, path, mtime, ctime, size)\n"
      "        if not use_timestamps or not row2:\n            return stale()\n"
      "        if last_size != size or last_mtime != mtime:\n            return stale()\n"
      "        if last_ctime != ctime:\n            return stale()\n", None),
    M("benign-stat-attributes-reordered", B,
      "        size = s[stat.ST_SIZE]\n        ctime = s[stat.ST_CTIME]\n        mtime = s[stat.ST_MTIME]\n",
      "        mtime = s[stat.ST_MTIME]\n        ctime = s[stat.ST_CTIME]\n        size = s[stat.ST_SIZE]\n", None),
    M("benign-explicit-columns-reordered", B,
      '            self.cursor.execute("INSERT INTO local_files VALUES (?,?,?,?,?)",\n                                (path, size, mtime, ctime, fileid))',
      '            self.cursor.execute("INSERT INTO local_files (fileid,path,mtime,ctime,size) VALUES (?,?,?,?,?)",\n                                (fileid, path, mtime, ctime, size))',
      None),
    M("benign-select-and-unpack-reordered", B,
      '        c.execute("SELECT size,mtime,ctime,fileid"', '        c.execute("SELECT fileid,ctime,mtime,size"', None,
      edits=[(B, "        (last_size,last_mtime,last_ctime,last_fileid) = row\n", "        (last_fileid,prev_ctime,last_mtime,last_size) = row\n"),
             (B, "             or last_ctime != ctime) # the file has been changed", "             or prev_ctime != ctime) # the file has been changed")]),
    M("benign-param-renamed", B,
      "    def did_upload_file(self, filecap, path, mtime, ctime, size):", "    def did_upload_file(self, filecap, path, modified, changed, size):", None,
      edits=[(B, "                                (path, size, mtime, ctime, fileid))", "                                (path, size, modified, changed, fileid))"),
             (B, "                                (size, mtime, ctime, fileid, path))", "                                (size, modified, changed, fileid, path))")]),
    M("benign-dirhash-generator", B,
      '        data = b"".join([netstring(name_utf8)+netstring(cap)\n                         for (name_utf8,cap) in entries])',
      '        data = b"".join(netstring(n) + netstring(childcap)\n                        for (n, childcap) in entries)', None),
    M("benign-tb-inline", T,
      '        use_timestamps = not self.options["ignore-timestamps"]\n        r = self.backupdb.check_file(childpath, use_timestamps)',
      '        r = self.backupdb.check_file(childpath, use_timestamps=not self.options["ignore-timestamps"])', None),
    # ---- C42.5 the fileid links the path to the caps row of the recorded cap
    M("fileid-insert-or-ignore-lastrowid", B, GETID,
      "        c.execute(\"INSERT OR IGNORE INTO caps (filecap) VALUES (?)\", (filecap,))\n"
      "        fileid = c.lastrowid\n"
      "        if not fileid:\n"
      "            c.execute(\"SELECT fileid FROM caps WHERE filecap=?\", (filecap,))\n"
      "            foundrow = c.fetchone()\n"
      "            assert foundrow\n"
      "            fileid = foundrow[0]\n"
      "        return fileid\n", "C42.5"),
    M("fileid-lastrowid-after-swallowed-error", B, SELID, "        fileid = c.lastrowid\n", "C42.5"),
    M("fileid-lastrowid-in-handler", B, GETID,
      "        try:\n"
      "            c.execute(\"INSERT INTO caps (filecap) VALUES (?)\", (filecap,))\n"
      "        except (self.sqlite_module.IntegrityError, self.sqlite_module.OperationalError):\n"
      "            return c.lastrowid\n"
      "        c.execute(\"SELECT fileid FROM caps WHERE filecap=?\", (filecap,))\n"
      "        foundrow = c.fetchone()\n"
      "        assert foundrow\n"
      "        fileid = foundrow[0]\n"
      "        return fileid\n", "C42.5"),
    M("fileid-select-not-by-filecap", B,
      '        c.execute("SELECT fileid FROM caps WHERE filecap=?", (filecap,))\n', '        c.execute("SELECT fileid FROM caps")\n', "C42.5"),
    M("fileid-of-last-upload-row", B, SELID,
      "        fileid = c.execute(\"INSERT OR REPLACE INTO last_upload (last_uploaded) VALUES (?)\", (time.time(),)).lastrowid\n",
      "C42.5"),
    M("fileid-asked-for-the-path", B,
      "        now = time.time()\n        fileid = self.get_or_allocate_fileid_for_cap(filecap)\n        try:\n",
      "        now = time.time()\n        fileid = self.get_or_allocate_fileid_for_cap(path)\n        try:\n", "C42"),
    M("benign-fileid-lastrowid-of-successful-insert", B, GETID,
      "        try:\n"
      "            c.execute(\"INSERT INTO caps (filecap) VALUES (?)\", (filecap,))\n"
      "            fileid = c.lastrowid\n"
      "        except (self.sqlite_module.IntegrityError, self.sqlite_module.OperationalError):\n"
      "            c.execute(\"SELECT fileid FROM caps WHERE filecap=?\", (filecap,))\n"
      "            foundrow = c.fetchone()\n"
      "            assert foundrow\n"
      "            fileid = foundrow[0]\n"
      "        return fileid\n", None),
    M("benign-fileid-select-first", B, GETID,
      "        c.execute(\"SELECT fileid FROM caps WHERE filecap=?\", (filecap,))\n"
      "        known = c.fetchone()\n"
      "        if known:\n"
      "            return known[0]\n"
      "        return c.execute(\"INSERT INTO caps (filecap) VALUES (?)\", (filecap,)).lastrowid\n", None),
    M("benign-fileid-inlined-temporary", B,
      "        foundrow = c.fetchone()\n        assert foundrow\n        fileid = foundrow[0]\n        return fileid\n",
      "        (the_id,) = c.fetchone()\n        return the_id\n", None),
    # ---- C42.6 the recorded metadata was observed before the content was read
    M("meta-restat-in-did-upload", B,
      "    def did_upload(self, filecap):\n",
      "    def did_upload(self, filecap):\n        s = os.stat(self.path)\n        self.size = s[stat.ST_SIZE]\n"
      "        self.mtime = s[stat.ST_MTIME]\n        self.ctime = s[stat.ST_CTIME]\n", "C42.6"),
    M("meta-restat-in-did-upload-file", B,
      "        now = time.time()\n        fileid = self.get_or_allocate_fileid_for_cap(filecap)\n        try:\n",
      "        now = time.time()\n        s = os.stat(path)\n        mtime = s.st_mtime\n        ctime = s.st_ctime\n"
      "        fileid = self.get_or_allocate_fileid_for_cap(filecap)\n        try:\n", "C42.6"),
    M("meta-getsize-after-upload", B,
      "                                 self.mtime, self.ctime, self.size)", "                                 self.mtime, self.ctime, os.path.getsize(self.path))",
      "C42.6"),
    M("meta-refresh-helper", B,
      "    def did_upload(self, filecap):\n",
      "    def _refresh(self):\n        self.mtime = os.stat(self.path).st_mtime\n\n"
      "    def did_upload(self, filecap):\n        self._refresh()\n", "C42.6"),
    M("tb-database-consulted-after-upload", T,
      "            if bdb_results:\n                bdb_results.did_upload(filecap)\n",
      "            must_upload, bdb_results = self.check_backupdb_file(childpath)\n"
      "            if bdb_results:\n                bdb_results.did_upload(filecap)\n", "C42.6"),
    M("tb-content-read-before-database", T,
      "        must_upload, bdb_results = self.check_backupdb_file(childpath)\n\n        if must_upload:\n",
      "        url = self.options['node-url'] + \"uri\"\n        resp = do_http(\"PUT\", url, open(childpath, \"rb\"))\n"
      "        must_upload, bdb_results = self.check_backupdb_file(childpath)\n\n        if must_upload:\n",
      "C42.6", edits=[(T, "            infileobj = open(childpath, \"rb\")\n            url = self.options['node-url'] + \"uri\"\n"
                         "            resp = do_http(\"PUT\", url, infileobj)\n", "")]),
    M("benign-meta-locals-in-did-upload", B,
      "        self.bdb.did_upload_file(filecap, self.path,\n                                 self.mtime, self.ctime, self.size)",
      "        m = self.mtime\n        (c, sz) = (self.ctime, self.size)\n"
      "        self.bdb.did_upload_file(filecap, self.path, m, c, size=sz)", None),
    M("benign-meta-refreshed-before-return", B,
      "    def did_upload(self, filecap):\n",
      "    def examine(self):\n        s = os.stat(self.path)\n        self.size = s[stat.ST_SIZE]\n"
      "        self.mtime = s[stat.ST_MTIME]\n        self.ctime = s[stat.ST_CTIME]\n        return self\n\n"
      "    def did_upload(self, filecap):\n", None,
      edits=[(B, "        if not row:\n            return FileResult(self, None, False, path, mtime, ctime, size)\n",
              "        if not row:\n            return FileResult(self, None, False, path, mtime, ctime, size).examine()\n")]),
    M("benign-tb-metadata-after-check", T,
      "        metadata = get_local_metadata(childpath)\n\n        # we can use the backupdb here\n"
      "        must_upload, bdb_results = self.check_backupdb_file(childpath)\n",
      "        must_upload, bdb_results = self.check_backupdb_file(childpath)\n        metadata = get_local_metadata(childpath)\n", None),
    M("benign-tb-with-open", T,
      "            infileobj = open(childpath, \"rb\")\n            url = self.options['node-url'] + \"uri\"\n"
      "            resp = do_http(\"PUT\", url, infileobj)\n",
      "            url = self.options['node-url'] + \"uri\"\n            with open(childpath, \"rb\") as infileobj:\n"
      "                resp = do_http(\"PUT\", url, infileobj)\n", None),
    # ---- C42.4: the reused cap may travel through a temporary before it is returned
    M("benign-tb-reuse-answer-hoisted", T,
      "            return False, bdb_results.was_uploaded(), metadata",
      "            answer = False, bdb_results.was_uploaded(), metadata\n            return answer", None),
    M("benign-tb-dir-reuse-answer-hoisted", T,
      "            return False, r.was_created()", "            oldcap = r.was_created()\n            return False, oldcap", None),
    # ---- C42.7 only the body of a successful response is recorded as a cap
    M("put-status-test-negated", T,
      "            if resp.status not in (200, 201):\n                raise HTTPError(\"Error during file PUT\", resp)",
      "            if not (resp.status not in (200, 201)):\n                raise HTTPError(\"Error during file PUT\", resp)", "C42.7"),
    M("put-status-cmp-flipped", T,
      "            if resp.status not in (200, 201):\n                raise HTTPError(\"Error during file PUT\", resp)",
      "            if resp.status in (200, 201):\n                raise HTTPError(\"Error during file PUT\", resp)", "C42.7"),
    M("put-failure-not-raised", T,
      "                raise HTTPError(\"Error during file PUT\", resp)", "                pass", "C42.7"),
    M("put-failure-only-warned", T,
      "                raise HTTPError(\"Error during file PUT\", resp)",
      "                self.warn(\"Error during file PUT: %d\" % resp.status)", "C42.7"),
    M("put-status-404-accepted", T,
      "            if resp.status not in (200, 201):\n                raise HTTPError(\"Error during file PUT\", resp)",
      "            if resp.status not in (200, 201, 404):\n                raise HTTPError(\"Error during file PUT\", resp)", "C42.7"),
    M("put-status-of-other-response", T,
      "            if resp.status not in (200, 201):\n                raise HTTPError(\"Error during file PUT\", resp)",
      "            probe = do_http(\"GET\", url)\n            if probe.status not in (200, 201):\n"
      "                raise HTTPError(\"Error during file PUT\", resp)", "C42.7"),
    M("mkdir-status-and-instead-of-or", T,
      "    if resp.status < 200 or resp.status >= 300:\n        raise HTTPError(\"Error during mkdir\", resp)",
      "    if resp.status < 200 and resp.status >= 300:\n        raise HTTPError(\"Error during mkdir\", resp)", "C42.7"),
    M("mkdir-failure-not-raised", T,
      "        raise HTTPError(\"Error during mkdir\", resp)", "        pass", "C42.7"),
    M("mkdir-upper-bound-dropped", T,
      "    if resp.status < 200 or resp.status >= 300:\n", "    if resp.status < 200:\n", "C42.7"),
    M("mkdir-upper-bound-500", T,
      "    if resp.status < 200 or resp.status >= 300:\n", "    if resp.status < 200 or resp.status >= 500:\n", "C42.7"),
    M("benign-put-status-hoisted", T,
      "            if resp.status not in (200, 201):\n                raise HTTPError(\"Error during file PUT\", resp)",
      "            status = resp.status\n            ok = status in (200, 201)\n            if not ok:\n"
      "                raise HTTPError(\"Error during file PUT\", resp)", None),
    M("benign-put-status-equalities", T,
      "            if resp.status not in (200, 201):\n                raise HTTPError(\"Error during file PUT\", resp)",
      "            if resp.status == 200 or 201 == resp.status:\n                pass\n            else:\n"
      "                raise HTTPError(\"Error during file PUT\", resp)", None),
    M("benign-put-response-renamed", T,
      "            resp = do_http(\"PUT\", url, infileobj)\n            if resp.status not in (200, 201):\n"
      "                raise HTTPError(\"Error during file PUT\", resp)\n\n            filecap = resp.read().strip()",
      "            answer = do_http(\"PUT\", url, infileobj)\n            if answer.status not in [200, 201]:\n"
      "                raise HTTPError(\"Error during file PUT\", answer)\n\n            filecap = answer.read().strip()", None),
    M("benign-mkdir-chained-range", T,
      "    if resp.status < 200 or resp.status >= 300:\n        raise HTTPError(\"Error during mkdir\", resp)",
      "    if not (200 <= resp.status < 300):\n        raise HTTPError(\"Error during mkdir\", resp)", None),
    M("benign-mkdir-bounds-mirrored", T,
      "    if resp.status < 200 or resp.status >= 300:\n        raise HTTPError(\"Error during mkdir\", resp)",
      "    failed = 299 < resp.status or 200 > resp.status\n    if failed:\n        raise HTTPError(\"Error during mkdir\", resp)", None),
    # ---- C42.8 the directory key is an injective encoding of the contents (lookup side and stored side)
    M("dirhash-name-nfc-normalised", B,
      '            entries.append( [name.encode("utf-8"), contents[name]] )',
      '            entries.append( [normalize(name).encode("utf-8"), contents[name]] )', "C42.8",
      edits=[(B, "from allmydata.util.encodingutil import to_bytes\n", "from allmydata.util.encodingutil import to_bytes, normalize\n")]),
    M("dirhash-name-casefolded-temporary", B,
      '        for name in contents:\n            entries.append( [name.encode("utf-8"), contents[name]] )',
      '        for name in contents:\n            key = name.lower()\n            entries.append( [key.encode("utf-8"), contents[name]] )', "C42.8"),
    M("dirhash-name-undecodable-dropped", B,
      '            entries.append( [name.encode("utf-8"), contents[name]] )',
      '            entries.append( [name.encode("ascii", "ignore"), contents[name]] )', "C42.8"),
    M("dirhash-name-truncated-in-join", B,
      '        data = b"".join([netstring(name_utf8)+netstring(cap)', '        data = b"".join([netstring(name_utf8[:255])+netstring(cap)', "C42.8"),
    M("dirhash-cap-shortened", B,
      '            entries.append( [name.encode("utf-8"), contents[name]] )',
      '            entries.append( [name.encode("utf-8"), to_bytes(contents[name])[:40]] )', "C42.8"),
    M("dirhash-cap-of-other-child", B,
      '            entries.append( [name.encode("utf-8"), contents[name]] )',
      '            entries.append( [name.encode("utf-8"), contents[name.strip()]] )', "C42.8"),
    M("dirhash-precision-format", B,
      '        data = b"".join([netstring(name_utf8)+netstring(cap)',
      '        data = b"".join([netstring(b"%.64s" % name_utf8)+netstring(cap)', "C42.8"),
    M("dirhash-stored-under-normalised-key", B,
      "        if not row:\n            return DirectoryResult(self, dirhash_s, None, False)\n",
      "        if not row:\n"
      "            nfc = b\"\".join([netstring(normalize(n).encode(\"utf-8\"))+netstring(c) for (n, c) in sorted(contents.items())])\n"
      "            return DirectoryResult(self, base32.b2a(backupdb_dirhash(nfc)), None, False)\n", "C42.8",
      edits=[(B, "from allmydata.util.encodingutil import to_bytes\n", "from allmydata.util.encodingutil import to_bytes, normalize\n")]),
    M("dirhash-stored-under-swapped-framing", B,
      "        if not row:\n            return DirectoryResult(self, dirhash_s, None, False)\n",
      "        if not row:\n"
      "            v2 = b\"\".join([netstring(cap)+netstring(name_utf8) for (name_utf8,cap) in entries])\n"
      "            return DirectoryResult(self, base32.b2a(backupdb_dirhash(v2)), None, False)\n", "C42.8"),
    M("benign-dirhash-name-encoded-first", B,
      '        for name in contents:\n            entries.append( [name.encode("utf-8"), contents[name]] )',
      '        for name in contents:\n            name_utf8 = name.encode("utf8")\n            childcap = contents[name]\n'
      '            entries.append( (name_utf8, childcap) )', None),
    M("benign-dirhash-items-and-sorted", B,
      '        for name in contents:\n            entries.append( [name.encode("utf-8"), contents[name]] )\n        entries.sort()\n',
      '        for (name, childcap) in contents.items():\n            entries.append( [to_bytes(name), childcap] )\n'
      '        entries = sorted(entries)\n', None),
    M("benign-dirhash-key-through-temporaries", B,
      "        if not row:\n            return DirectoryResult(self, dirhash_s, None, False)\n",
      "        if not row:\n            key = dirhash_s\n            fresh = DirectoryResult(self, key, None, False)\n            return fresh\n", None),
    M("benign-dirhash-recomputed-identically", B,
      "        if not row:\n            return DirectoryResult(self, dirhash_s, None, False)\n",
      "        if not row:\n            return DirectoryResult(self, base32.b2a(backupdb_dirhash(data)), None, False)\n", None),
    # ---- C42.9 the file key is the path itself
    M("path-key-casefolded", B,
      "        path = abspath_expanduser_unicode(path)\n\n        # TODO: consider using get_pathinfo.",
      "        path = abspath_expanduser_unicode(path.lower())\n\n        # TODO: consider using get_pathinfo.", "C42.9"),
    M("path-key-normalised-for-lookup", B,
      '                  " FROM local_files"\n                  " WHERE path=?",\n                  (path,))',
      '                  " FROM local_files"\n                  " WHERE path=?",\n                  (normalize(path),))', "C42.9",
      edits=[(B, "from allmydata.util.encodingutil import to_bytes\n", "from allmydata.util.encodingutil import to_bytes, normalize\n")]),
    M("path-key-truncated-on-insert", B,
      "                                (path, size, mtime, ctime, fileid))", "                                (path[-255:], size, mtime, ctime, fileid))",
      "C42.9"),
    M("path-key-basename-on-update", B,
      "                                (size, mtime, ctime, fileid, path))", "                                (size, mtime, ctime, fileid, os.path.basename(path)))",
      "C42.9"),
    M("benign-path-explicit-long-path", B,
      "        path = abspath_expanduser_unicode(path)\n\n        # TODO: consider using get_pathinfo.",
      "        path = abspath_expanduser_unicode(path, long_path=True)\n\n        # TODO: consider using get_pathinfo.", None),
    M("benign-path-binding-hoisted", B,
      '                  " FROM local_files"\n                  " WHERE path=?",\n                  (path,))',
      '                  " FROM local_files"\n                  " WHERE path=?",\n                  key)', None,
      edits=[(B, "        now = time.time()\n        c = self.cursor\n\n        c.execute(\"SELECT size,mtime,ctime,fileid\"",
              "        now = time.time()\n        c = self.cursor\n        abspath = path\n        key = (abspath,)\n        c.execute(\"SELECT size,mtime,ctime,fileid\"")]),
    # ---- vanished anchor
    M("vanish-mkdir", T, "def mkdir(contents, options):", "def mkdir_immutable(contents, options):", "ANALYSIS-ERROR"),
]
