from .runner import M

URI = "src/allmydata/uri.py"
LIT = "src/allmydata/immutable/literal.py"
IFN = "src/allmydata/immutable/filenode.py"
MFN = "src/allmydata/mutable/filenode.py"
UNK = "src/allmydata/unknown.py"
IFACE = "src/allmydata/interfaces.py"

MUTANTS = [
    # ---- C43.1 : != is the negation of ==
    M("uri-ne-else-false", URI,
      "            return self.to_string() != them.to_string()\n        else:\n            return True\n",
      "            return self.to_string() != them.to_string()\n        else:\n            return False\n", "C43.1"),
    M("uri-ne-copies-eq", URI,
      "            return self.to_string() != them.to_string()\n", "            return self.to_string() == them.to_string()\n",
      "C43.1"),
    M("mutable-ne-identity", MFN,
      "    def __ne__(self, them):\n        return not (self == them)\n",
      "    def __ne__(self, them):\n        return self is not them\n", "C43.1"),
    M("unknown-ne-partial", UNK,
      "    def __ne__(self, other):\n        return not (self == other)\n",
      "    def __ne__(self, other):\n        if not isinstance(other, UnknownNode):\n            return True\n"
      "        return other.ro_uri != self.ro_uri\n", "C43.1"),
    # a subclass that overrides == but keeps the base class's explicit !=
    M("subclass-overrides-eq-only", URI,
      "class UnknownURI(_BaseURI):\n    def __init__(self, uri, error=None):",
      "class UnknownURI(_BaseURI):\n    def __eq__(self, them):\n        return isinstance(them, UnknownURI) and self._uri == them._uri\n"
      "    def __hash__(self):\n        return hash(self._uri)\n    def __init__(self, uri, error=None):", "C43.1"),
    # ---- C43.2 : hash
    M("mutable-hash-extra-field", MFN,
      "        return hash((self.__class__, self._uri))", "        return hash((self.__class__, self._uri, self._most_recent_size))",
      "C43.2"),
    M("mutable-hash-dropped", MFN,
      "    def __hash__(self):\n        return hash((self.__class__, self._uri))\n\n", "", "C43.2"),
    M("literal-hash-identity", LIT,
      "    def __hash__(self):\n        return self.u.__hash__()\n\n    def __eq__(self, other):\n        if isinstance(other, _ImmutableFileNodeBase):",
      "    def __hash__(self):\n        return id(self)\n\n    def __eq__(self, other):\n        if isinstance(other, _ImmutableFileNodeBase):",
      "C43.2"),
    M("uri-hash-none", URI,
      "    def __hash__(self):\n        return self.to_string().__hash__()\n", "    __hash__ = None\n", "C43.2"),
    # ---- C43.3 : shape of ==
    M("uri-eq-else-true", URI,
      "            return self.to_string() == them.to_string()\n        else:\n            return False\n",
      "            return self.to_string() == them.to_string()\n        else:\n            return True\n", "C43.3"),
    M("unknown-eq-asymmetric", UNK,
      "        return other.ro_uri == self.ro_uri and other.rw_uri == self.rw_uri",
      "        return other.ro_uri == self.ro_uri and other.ro_uri == self.rw_uri", "C43.3"),
    M("mutable-eq-falls-off", MFN,
      "            return False\n        return self._uri == them._uri\n", "            return False\n        self._uri == them._uri\n",
      "C43.3"),
    # ---- C43.4 : coverage / compares the cap
    M("mutable-trio-removed", MFN,
      "    def __hash__(self):\n        return hash((self.__class__, self._uri))\n\n    def __eq__(self, them):\n"
      "        if type(self) != type(them):\n            return False\n        return self._uri == them._uri\n\n"
      "    def __ne__(self, them):\n        return not (self == them)\n", "", "C43.4"),
    M("immutable-eq-compares-cnode", IFN,
      "    def __eq__(self, other):\n        if isinstance(other, ImmutableFileNode):\n            return self.u.__eq__(other.u)",
      "    def __eq__(self, other):\n        if isinstance(other, ImmutableFileNode):\n            return self._cnode.__eq__(other._cnode)",
      "C43.4"),
    M("uri-eq-compares-storage-index", URI,
      "            return self.to_string() == them.to_string()\n", "            return self.get_storage_index() == them.get_storage_index()\n",
      "C43.4"),
    M("cap-class-leaves-base", URI,
      "class LiteralFileURI(_BaseURI):", "class LiteralFileURI:", "C43.4"),
    # ---- C43.5 : the type guard of == points the right way (x == x), other.F is read under a positive guard
    M("literal-eq-guard-flipped", LIT,
      "        if isinstance(other, _ImmutableFileNodeBase):\n            return self.u == other.u\n",
      "        if not isinstance(other, _ImmutableFileNodeBase):\n            return self.u == other.u\n", "C43.5"),
    M("literal-eq-isinstance-args-swapped", LIT,
      "        if isinstance(other, _ImmutableFileNodeBase):\n            return self.u == other.u\n",
      "        if isinstance(_ImmutableFileNodeBase, other):\n            return self.u == other.u\n", "C43.5"),
    M("literal-eq-guard-wrong-class", LIT,
      "        if isinstance(other, _ImmutableFileNodeBase):\n            return self.u == other.u\n",
      "        if isinstance(other, LiteralFileURI):\n            return self.u == other.u\n", "C43.5"),
    M("mutable-eq-type-guard-flipped", MFN,
      "        if type(self) != type(them):\n            return False\n        return self._uri == them._uri\n",
      "        if type(self) == type(them):\n            return False\n        return self._uri == them._uri\n", "C43.5"),
    M("unknown-eq-guard-flipped", UNK,
      "        if not isinstance(other, UnknownNode):\n            return False\n        return other.ro_uri",
      "        if isinstance(other, UnknownNode):\n            return False\n        return other.ro_uri", "C43.5"),
    M("unknown-eq-guard-dropped", UNK,
      "        if not isinstance(other, UnknownNode):\n            return False\n        return other.ro_uri",
      "        return other.ro_uri", "C43.5"),
    M("unknown-eq-guard-only-none", UNK,
      "        if not isinstance(other, UnknownNode):\n            return False\n        return other.ro_uri",
      "        if other is None:\n            return False\n        return other.ro_uri", "C43.5"),
    # ---- behaviour-preserving
    M("benign-mutable-eq-positive-guard", MFN,
      "        if type(self) != type(them):\n            return False\n        return self._uri == them._uri\n",
      "        if type(them) == type(self):\n            return them._uri == self._uri\n        return False\n", None),
    M("benign-mutable-eq-class-identity", MFN,
      "        if type(self) != type(them):\n            return False\n        return self._uri == them._uri\n",
      "        if self.__class__ is not them.__class__:\n            return False\n        same = self._uri == them._uri\n"
      "        return same\n", None),
    M("benign-unknown-eq-nested", UNK,
      "        if not isinstance(other, UnknownNode):\n            return False\n        return other.ro_uri == self.ro_uri and other.rw_uri == self.rw_uri",
      "        if other is None:\n            return False\n        if isinstance(other, UnknownNode):\n"
      "            return other.ro_uri == self.ro_uri and other.rw_uri == self.rw_uri\n        return False", None),
    M("benign-literal-eq-tuple-guard", LIT,
      "        if isinstance(other, _ImmutableFileNodeBase):\n            return self.u == other.u\n        else:\n            return False\n",
      "        if not isinstance(other, (_ImmutableFileNodeBase,)):\n            return False\n        rv = self.u == other.u\n        return rv\n", None),
    M("benign-ifn-returns-hoisted", IFN,
      "    def __eq__(self, other):\n        if isinstance(other, ImmutableFileNode):\n            return self.u.__eq__(other.u)\n",
      "    def __eq__(self, other):\n        if isinstance(other, ImmutableFileNode):\n            same = self.u.__eq__(other.u)\n            return same\n",
      None, edits=[(IFN, "            return not self.u.__eq__(other.u)\n", "            differ = not self.u.__eq__(other.u)\n            return differ\n")]),
    M("benign-uri-eq-guard-first", URI,
      "        if isinstance(them, _BaseURI):\n            return self.to_string() == them.to_string()\n        else:\n            return False\n",
      "        if not isinstance(them, _BaseURI):\n            return False\n        mine = self.to_string()\n        return them.to_string() == mine\n",
      None),
    M("benign-uri-ne-delegates", URI,
      "        if isinstance(them, _BaseURI):\n            return self.to_string() != them.to_string()\n        else:\n            return True\n",
      "        return not self.__eq__(them)\n", None),
    M("benign-literal-dunder-and-rename", LIT,
      "    def __eq__(self, other):\n        if isinstance(other, _ImmutableFileNodeBase):\n            return self.u == other.u\n        else:\n            return False\n\n"
      "    def __ne__(self, other):\n        return not self == other\n",
      "    def __eq__(self, them):\n        if isinstance(them, _ImmutableFileNodeBase):\n            return self.u.__eq__(them.u)\n        return False\n\n"
      "    def __ne__(self, x):\n        return not (x == self)\n", None),
    M("benign-mutable-hash-type", MFN,
      "        return hash((self.__class__, self._uri))", "        key = (type(self), self._uri)\n        return hash(key)", None),
    M("benign-uri-ne-not-eq-form", URI,
      "            return self.to_string() != them.to_string()\n", "            return not (them.to_string() == self.to_string())\n", None),
    # the planned repair of the ImmutableFileNode.__ne__ finding must satisfy C43.1 (skipped once /repo is repaired)
    M("benign-ifn-ne-repaired", IFN,
      "    def __ne__(self, other):\n        if isinstance(other, ImmutableFileNode):\n            return self.u.__eq__(other.u)\n",
      "    def __ne__(self, other):\n        if isinstance(other, ImmutableFileNode):\n            return not self.u.__eq__(other.u)\n", None),
    # ---- vanished anchor
    M("vanish-node-interface", IFACE,
      "class IFilesystemNode(Interface):", "class IFilesystemNodeBase(Interface):", "ANALYSIS-ERROR"),
]

# ---- C43.6 (seeded C43-E): comparison methods written by a class decorator / a class-body assignment
_UNK_OLD = "class UnknownURI(_BaseURI):\n    def __init__(self, uri, error=None):\n        self._uri = uri\n        self._error = error\n"
_IMP_OLD = "from zope.interface import implementer\nfrom twisted.python.components import registerAdapter\n"
_IMP_ATTR = "import attr\n" + _IMP_OLD
_IMP_ATTRS = "import attrs\n" + _IMP_OLD
_IMP_DC = "from dataclasses import dataclass, field\n" + _IMP_OLD


def _U(name, new_class, imp, expect):
    return M(name, URI, _UNK_OLD, new_class, expect, edits=[(URI, _IMP_OLD, imp)] if imp else [])


MUTANTS += [
    # the seeded mechanism: frozen attrs class, generated __eq__/__ne__/__hash__ over (uri, error)
    _U("unknown-uri-frozen-attrs", "@attr.s(frozen=True)\nclass UnknownURI(_BaseURI):\n    _uri = attr.ib()\n    _error = attr.ib(default=None)\n",
       _IMP_ATTR, "C43.6"),
    # the same effect through the standard library
    _U("unknown-uri-frozen-dataclass", "@dataclass(frozen=True)\nclass UnknownURI(_BaseURI):\n    _uri: bytes\n    _error: object = None\n",
       _IMP_DC, "C43.6"),
    # .. and through the modern attrs API (annotated fields)
    _U("unknown-uri-attrs-frozen-api", "@attrs.frozen\nclass UnknownURI(_BaseURI):\n    _uri: bytes\n    _error: object = None\n",
       _IMP_ATTRS, "C43.6"),
    # only the cap string is compared, but the class is not frozen: attrs sets __hash__ = None
    _U("unknown-uri-attrs-unhashable", "@attr.s\nclass UnknownURI(_BaseURI):\n    _uri = attr.ib()\n    _error = attr.ib(default=None, eq=False)\n",
       _IMP_ATTR, "C43.6"),
    # not frozen and no hash requested: dataclass sets __hash__ = None as well
    _U("unknown-uri-dataclass-unhashable", "@dataclass\nclass UnknownURI(_BaseURI):\n    _uri: bytes\n    _error: object = field(default=None, compare=False)\n",
       _IMP_DC, "C43.6"),
    # a class-body assignment hides the inherited def
    M("unknown-uri-hash-unset", URI, _UNK_OLD, "class UnknownURI(_BaseURI):\n    __hash__ = None\n\n    def __init__(self, uri, error=None):\n        self._uri = uri\n        self._error = error\n", "C43.6"),
    M("unknown-uri-eq-rebound-to-identity", URI, _UNK_OLD,
      "class UnknownURI(_BaseURI):\n    __eq__ = object.__eq__\n    __ne__ = object.__ne__\n    __hash__ = object.__hash__\n\n    def __init__(self, uri, error=None):\n        self._uri = uri\n        self._error = error\n", "C43.6"),
    # a decorator the rule does not know
    M("vanish-unknown-class-decorator", URI, _UNK_OLD, "def _tag(cls):\n    return cls\n\n@_tag\n" + _UNK_OLD, "ANALYSIS-ERROR"),
    # behaviour-preserving conversions
    _U("benign-unknown-uri-attrs-eq-false", "@attr.s(frozen=True, eq=False)\nclass UnknownURI(_BaseURI):\n    _uri = attr.ib()\n    _error = attr.ib(default=None)\n",
       _IMP_ATTR, None),
    _U("benign-unknown-uri-attrs-error-not-compared", "@attr.s(frozen=True)\nclass UnknownURI(_BaseURI):\n    _uri = attr.ib()\n    _error = attr.ib(default=None, eq=False)\n",
       _IMP_ATTR, None),
    _U("benign-unknown-uri-dataclass-error-not-compared", "@dataclass(frozen=True)\nclass UnknownURI(_BaseURI):\n    _uri: bytes\n    _error: object = field(default=None, compare=False)\n",
       _IMP_DC, None),
    _U("benign-unknown-uri-dataclass-eq-false", "@dataclass(frozen=True, eq=False)\nclass UnknownURI(_BaseURI):\n    _uri: bytes\n    _error: object = None\n",
       _IMP_DC, None),
    _U("benign-unknown-uri-define-own-trio", "@attrs.define\nclass UnknownURI(_BaseURI):\n    _uri: bytes\n    _error: object = None\n\n"
       "    def __eq__(self, them):\n        if isinstance(them, _BaseURI):\n            return self.to_string() == them.to_string()\n        return False\n\n"
       "    def __ne__(self, them):\n        return not self == them\n\n"
       "    def __hash__(self):\n        return hash(self.to_string())\n", _IMP_ATTRS, None),
    M("benign-unknown-uri-hash-reexported", URI, _UNK_OLD,
      "class UnknownURI(_BaseURI):\n    __hash__ = _BaseURI.__hash__\n\n    def __init__(self, uri, error=None):\n        self._uri = uri\n        self._error = error\n", None),
]
