from .runner import M

OFF = "src/allmydata/immutable/offloaded.py"
UP = "src/allmydata/immutable/upload.py"

# -- C44.13: EncryptAnUploadable.read_encrypted / _read_encrypted (the _Accum + until(action, condition) chain) rewritten
# as an @defer.inlineCallbacks loop; EXIT is the loop's exit test, DEC what the byte counter is decremented by
OLD_READ_LOOP = '    def read_encrypted(self, length, hash_only):\n        # make sure our parameters have been set up first\n        d = self.get_all_encoding_parameters()\n        # and size\n        d.addCallback(lambda ignored: self.get_size())\n        d.addCallback(lambda ignored: self._get_encryptor())\n\n        accum = _Accum(length)\n\n        def action():\n            """\n            Read some bytes into the accumulator.\n            """\n            return self._read_encrypted(accum, hash_only)\n\n        def condition():\n            """\n            Check to see if the accumulator has all the data.\n            """\n            return accum.remaining == 0\n\n        d.addCallback(lambda ignored: until(action, condition))\n        d.addCallback(lambda ignored: accum.ciphertext)\n        return d\n\n    def _read_encrypted(self,\n                        ciphertext_accum,  # type: _Accum\n                        hash_only,         # type: bool\n    ):\n        # type: (...) -> defer.Deferred\n        """\n        Read the next chunk of plaintext, encrypt it, and extend the accumulator\n        with the resulting ciphertext.\n        """\n        # tolerate large length= values without consuming a lot of RAM by\n        # reading just a chunk (say 50kB) at a time. This only really matters\n        # when hash_only==True (i.e. resuming an interrupted upload), since\n        # that\'s the case where we will be skipping over a lot of data.\n        size = min(ciphertext_accum.remaining, self.CHUNKSIZE)\n\n        # read a chunk of plaintext..\n        d = defer.maybeDeferred(self.original.read, size)\n        def _good(plaintext):\n            # and encrypt it..\n            # o/\' over the fields we go, hashing all the way, sHA! sHA! sHA! o/\'\n            ct = self._hash_and_encrypt_plaintext(plaintext, hash_only)\n            # Intentionally tell the accumulator about the expected size, not\n            # the actual size.  If we run out of data we still want remaining\n            # to drop otherwise it will never reach 0 and the loop will never\n            # end.\n            ciphertext_accum.extend(size, ct)\n        d.addCallback(_good)\n        return d\n'

IC_READ_LOOP = (
    "    @defer.inlineCallbacks\n"
    "    def read_encrypted(self, length, hash_only):\n"
    "        yield self.get_all_encoding_parameters()\n"
    "        yield self.get_size()\n"
    "        yield self._get_encryptor()\n"
    "        ciphertext = []\n"
    "        remaining = length\n"
    "        while True:\n"
    "            size = min(remaining, self.CHUNKSIZE)\n"
    "            ct = yield self._read_encrypted(size, hash_only)\n"
    "            ciphertext.extend(ct)\n"
    "            remaining -= %(DEC)s\n"
    "            if %(EXIT)s:\n"
    "                break\n"
    "        return ciphertext\n"
    "\n"
    "    def _read_encrypted(self, size, hash_only):\n"
    "        d = defer.maybeDeferred(self.original.read, size)\n"
    "        d.addCallback(self._hash_and_encrypt_plaintext, hash_only)\n"
    "        return d\n")

# the same refactor with the helper inlined into the generator body; EOF is what the loop looks at to stop early
IC_READ_LOOP_INLINED = (
    "    @defer.inlineCallbacks\n"
    "    def read_encrypted(self, length, hash_only):\n"
    "        yield self.get_all_encoding_parameters()\n"
    "        yield self.get_size()\n"
    "        yield self._get_encryptor()\n"
    "        ciphertext = []\n"
    "        remaining = length\n"
    "        while remaining:\n"
    "            size = min(remaining, self.CHUNKSIZE)\n"
    "            plaintext = yield defer.maybeDeferred(self.original.read, size)\n"
    "            ct = self._hash_and_encrypt_plaintext(plaintext, hash_only)\n"
    "            if not %(EOF)s:\n"
    "                break\n"
    "            ciphertext.extend(ct)\n"
    "            remaining -= size\n"
    "        return ciphertext\n")

MUTANTS = [
    # -- C44.1 resume offset
    M("have-starts-at-zero", OFF,
      "            self._have = os.stat(self._incoming_file)[stat.ST_SIZE]\n",
      "            self._have = 0\n", "C44.1"),
    M("have-from-encoding-file", OFF,
      "            self._have = os.stat(self._incoming_file)[stat.ST_SIZE]\n",
      "            self._have = os.stat(self._encoding_file)[stat.ST_SIZE]\n", "C44.1"),
    M("incoming-opened-for-write", OFF,
      "        self._f = open(self._incoming_file, \"ab\")", "        self._f = open(self._incoming_file, \"wb\")", "C44.1"),
    M("exists-check-dropped", OFF,
      "        if os.path.exists(self._incoming_file):\n            self._have = os.stat(self._incoming_file)[stat.ST_SIZE]\n"
      "            self._upload_helper._helper.count(\"chk_upload_helper.resumes\")\n"
      "            self.log(\"we already have %d bytes\" % self._have, level=log.NOISY)\n        else:\n"
      "            self._have = 0\n            self.log(\"we do not have any ciphertext yet\", level=log.NOISY)\n",
      "        self._have = 0\n", "C44.1"),
    # -- C44.2 pairing
    M("have-not-advanced", OFF,
      "                self._f.write(data)\n                self._have += len(data)\n",
      "                self._f.write(data)\n", "C44.2"),
    M("have-advanced-by-vector-length", OFF,
      "                self._have += len(data)\n", "                self._have += len(ciphertext_v)\n", "C44.2"),
    M("have-advanced-only-when-nonempty-chunk-first", OFF,
      "                self._f.write(data)\n                self._have += len(data)\n",
      "                self._f.write(data)\n                if self._ciphertext_fetched:\n                    self._have += len(data)\n",
      "C44.2"),
    M("have-reset-in-done", OFF,
      "        self._f.close()\n        self._f = None\n        self.log(format=\"done fetching ciphertext, size=%(size)d\",",
      "        self._f.close()\n        self._f = None\n        self._have = 0\n        self.log(format=\"done fetching ciphertext, size=%(size)d\",",
      "C44.2"),
    # -- C44.3 request / completion
    M("request-offset-is-session-counter", OFF,
      "        d = self.call(\"read_encrypted\", self._have, fetch_size)",
      "        d = self.call(\"read_encrypted\", self._ciphertext_fetched, fetch_size)", "C44.3"),
    M("done-when-last-chunk-is-short", OFF,
      "        if fetch_size == 0:\n", "        if fetch_size < self.CHUNK_SIZE:\n", "C44.3"),
    M("data-callback-says-finished", OFF,
      "            return False # not done\n", "            return True\n", "C44.3"),
    M("loop-fires-on-any-result", OFF,
      "            if finished:\n                self.log(\"finished reading ciphertext\", level=log.NOISY)",
      "            if finished is not None:\n                self.log(\"finished reading ciphertext\", level=log.NOISY)", "C44.3"),
    M("loop-fires-when-unfinished", OFF,
      "            else:\n                self._loop(fire_when_done)\n", "            else:\n                fire_when_done.callback(None)\n", "C44.3"),
    M("chunk-size-zero", OFF, "    CHUNK_SIZE = 50*1024\n", "    CHUNK_SIZE = 0\n", "C44.3"),
    # -- C44.4 hand-over
    M("start-reading-returns-none", OFF,
      "        # this Deferred will be fired once the last byte has been written to\n        # self._f\n        return d\n",
      "        return None\n", "C44.4"),
    M("errback-swallows-before-move", OFF,
      "            d.addCallback(self._start_reading)\n            d.addCallback(self._done)\n",
      "            d.addCallback(self._start_reading)\n            d.addErrback(log.err)\n            d.addCallback(self._done)\n",
      "C44.4"),
    M("move-before-reading", OFF,
      "            d.addCallback(self._start_reading)\n            d.addCallback(self._done)\n",
      "            d.addCallback(self._done)\n            d.addCallback(self._start_reading)\n", "C44.4"),
    M("bypass-when-partial-file-exists", OFF,
      "        if os.path.exists(self._encoding_file):\n            self.log(\"ciphertext already present, bypassing fetch\",",
      "        if os.path.exists(self._incoming_file):\n            self.log(\"ciphertext already present, bypassing fetch\",",
      "C44.4"),
    M("rename-before-close", OFF,
      "        self._f.close()\n        self._f = None\n        self.log(format=\"done fetching ciphertext, size=%(size)d\",\n"
      "                 size=os.stat(self._incoming_file)[stat.ST_SIZE],\n                 level=log.NOISY)\n"
      "        os.rename(self._incoming_file, self._encoding_file)\n",
      "        os.rename(self._incoming_file, self._encoding_file)\n        self._f.close()\n        self._f = None\n", "C44.4"),
    M("move-on-failure-too", OFF,
      "        if self._f:\n            self._f.close()\n        self._readers = []\n        self._done_observers.fire(f)",
      "        if self._f:\n            self._f.close()\n            os.rename(self._incoming_file, self._encoding_file)\n"
      "        self._readers = []\n        self._done_observers.fire(f)", "C44.4"),
    # -- C44.5 helper pipeline
    M("encode-without-waiting-for-fetch", OFF,
      "        d = self._fetcher.when_done()\n", "        d = defer.succeed(None)\n", "C44.5"),
    M("reader-reads-incoming", OFF,
      "        self._reader = LocalCiphertextReader(self, storage_index, encoding_file)",
      "        self._reader = LocalCiphertextReader(self, storage_index, incoming_file)", "C44.5"),
    M("one-directory-for-both", OFF,
      "        self._chk_encoding = os.path.join(basedir, \"CHK_encoding\")",
      "        self._chk_encoding = os.path.join(basedir, \"CHK_incoming\")", "C44.5"),
    M("helper-overrides-shareholders", OFF,
      "    def remote_get_version(self):\n        return self.VERSION\n\n    def remote_upload(self, reader):",
      "    def remote_get_version(self):\n        return self.VERSION\n\n"
      "    def set_shareholders(self, upload_trackers, already_serverids, encoder):\n"
      "        upload.CHKUploader.set_shareholders(self, upload_trackers[:1], already_serverids, encoder)\n\n"
      "    def remote_upload(self, reader):", "C44.5"),
    # -- C44.6 read cap
    M("readcap-link-only-without-helper", UP,
      "                d2.addCallback(turn_verifycap_into_read_cap)\n                return d2",
      "                if not self._helper:\n                    d2.addCallback(turn_verifycap_into_read_cap)\n                return d2",
      "C44.6"),
    M("readcap-k-n-swapped", UP,
      "r = uri.CHKFileURI(key, v.uri_extension_hash, v.needed_shares, v.total_shares, v.size)",
      "r = uri.CHKFileURI(key, v.uri_extension_hash, v.total_shares, v.needed_shares, v.size)", "C44.6"),
    M("readcap-result-dropped", UP,
      "                    d3.addCallback(put_readcap_into_results)\n                    return d3",
      "                    d3.addCallback(put_readcap_into_results)\n                    return uploadresults", "C44.6"),
    # -- C44.7 verify cap / already-present
    M("present-with-k-shares", OFF,
      "            if found < total:\n", "            if found < self._ueb_data['needed_shares']:\n", "C44.7"),
    M("helper-hash-of-capstring", OFF,
      "        hur.uri_extension_hash = v.uri_extension_hash\n",
      "        hur.uri_extension_hash = hashutil.uri_extension_hash(vcapstr)\n", "C44.7"),
    M("upload-helper-although-present", OFF,
      "            return (already_present, None)\n",
      "            return (already_present, self._make_chk_upload_helper(storage_index, lp))\n", "C44.7"),
    M("assisted-cap-uses-helper-size", UP,
      "                                   total_shares=self._total_shares,\n                                   size=self._size)",
      "                                   total_shares=self._total_shares,\n                                   size=hur.file_size)",
      "C44.7"),
    M("ueb-hash-of-unpacked", OFF,
      "        self._ueb_hash = hashutil.uri_extension_hash(ueb)\n        self._ueb_data = uri.unpack_extension(ueb)\n",
      "        self._ueb_data = uri.unpack_extension(ueb)\n        self._ueb_hash = hashutil.uri_extension_hash(uri.pack_extension(self._ueb_data))\n",
      "C44.7"),
    # -- C44.8 client side
    M("client-never-skips", UP,
      "            d = self._read_encrypted(skip, hash_only=True)\n        else:\n            d = defer.succeed(None)\n",
      "            d = defer.succeed(None)\n        else:\n            d = defer.succeed(None)\n", "C44.8"),
    M("client-serves-skip-length", UP,
      "            return self._read_encrypted(length, hash_only=False)\n",
      "            return self._read_encrypted(offset, hash_only=False)\n", "C44.8"),
    # -- C44.9 keystream continuity
    M("ks-skipped-bytes-not-encrypted", UP,
      "            ciphertext = aes.encrypt_data(self._encryptor, chunk)\n            if hash_only:\n"
      "                self.log(\"  skipping encryption\", level=log.NOISY)\n            else:\n"
      "                cryptdata.append(ciphertext)\n            del ciphertext\n",
      "            if hash_only:\n                self.log(\"  skipping encryption\", level=log.NOISY)\n            else:\n"
      "                cryptdata.append(aes.encrypt_data(self._encryptor, chunk))\n", "C44.9"),
    M("ks-encrypt-only-when-wanted", UP,
      "            ciphertext = aes.encrypt_data(self._encryptor, chunk)\n            if hash_only:\n"
      "                self.log(\"  skipping encryption\", level=log.NOISY)\n            else:\n"
      "                cryptdata.append(ciphertext)\n            del ciphertext\n",
      "            if not hash_only:\n                ciphertext = aes.encrypt_data(self._encryptor, chunk)\n"
      "                cryptdata.append(ciphertext)\n                del ciphertext\n", "C44.9"),
    M("ks-big-skipped-chunks-bypass-cipher", UP,
      "            self._update_segment_hash(chunk)\n            # TODO: we have to encrypt the data (even if hash_only==True)\n",
      "            self._update_segment_hash(chunk)\n            if hash_only and len(chunk) >= self.CHUNKSIZE:\n"
      "                continue\n            # TODO: we have to encrypt the data (even if hash_only==True)\n", "C44.9"),
    M("ks-skip-hashes-in-callback-only", UP,
      "            ct = self._hash_and_encrypt_plaintext(plaintext, hash_only)\n",
      "            if hash_only:\n                for chunk in plaintext:\n                    self._plaintext_hasher.update(chunk)\n"
      "                    self._update_segment_hash(chunk)\n                ciphertext_accum.extend(size, [])\n                return\n"
      "            ct = self._hash_and_encrypt_plaintext(plaintext, hash_only)\n", "C44.9"),
    M("ks-remote-skip-reads-plaintext-directly", UP,
      "        d = self._eu.read_encrypted(length, hash_only)\n        def _read(strings):\n            if hash_only:\n",
      "        if hash_only:\n            d = defer.maybeDeferred(self._eu.original.read, length)\n        else:\n"
      "            d = self._eu.read_encrypted(length, hash_only)\n        def _read(strings):\n            if hash_only:\n", "C44.9"),
    M("ks-new-encryptor-per-read", UP,
      "        if self._encryptor:\n            return defer.succeed(self._encryptor)\n\n        d = self.original.get_encryption_key()\n",
      "        d = self.original.get_encryption_key()\n", "C44.9"),
    M("ks-conditional-expression", UP,
      "            ciphertext = aes.encrypt_data(self._encryptor, chunk)\n            if hash_only:\n",
      "            ciphertext = None if hash_only else aes.encrypt_data(self._encryptor, chunk)\n            if hash_only:\n", "C44.9"),
    # -- C44.10 failure is reported and deregistered
    M("fail-closes-unstarted-reader", OFF,
      "                 level=log.UNUSUAL)\n        self._finished_observers.fire(f)\n",
      "                 level=log.UNUSUAL)\n        self._reader.close()\n        self._finished_observers.fire(f)\n", "C44.10"),
    M("fail-closes-reader-file-directly", OFF,
      "        self._finished_observers.fire(f)\n        self._helper.upload_finished(self._storage_index, 0)\n",
      "        self._finished_observers.fire(f)\n        self._reader.f.close()\n"
      "        self._helper.upload_finished(self._storage_index, 0)\n", "C44.10"),
    M("fail-unlinks-missing-encoding-file", OFF,
      "                 level=log.UNUSUAL)\n        self._finished_observers.fire(f)\n",
      "                 level=log.UNUSUAL)\n        os.unlink(self._encoding_file)\n        self._finished_observers.fire(f)\n", "C44.10"),
    M("fail-does-not-deregister", OFF,
      "        self._helper.upload_finished(self._storage_index, 0)\n        del self._reader\n",
      "        self._upload_status.set_active(False)\n        del self._reader\n", "C44.10"),
    M("fail-errback-only-logs", OFF,
      "        d.addCallback(self._finished)\n        d.addErrback(self._failed)\n",
      "        d.addCallback(self._finished)\n        d.addErrback(log.err)\n", "C44.10"),
    M("fetcher-fail-closes-unopened-file", OFF,
      "        if self._f:\n            self._f.close()\n        self._readers = []\n        self._done_observers.fire(f)",
      "        self._f.close()\n        self._readers = []\n        self._done_observers.fire(f)", "C44.10"),
    M("fetcher-chain-errback-only-logs", OFF,
      "        d.addCallback(self._done2, started)\n        d.addErrback(self._failed)\n",
      "        d.addCallback(self._done2, started)\n        d.addErrback(log.err)\n", "C44.10"),
    M("loop-errback-returns-failure", OFF,
      "            fire_when_done.errback(f)\n", "            return f\n", "C44.10"),
    M("deregister-only-successful", OFF,
      "        del self._active_uploads[storage_index]\n",
      "        if size:\n            del self._active_uploads[storage_index]\n", "C44.10"),
    # -- gaps found by the mutation sweep
    # C44.4: one fetch chain per fetcher
    M("start-flag-never-set", OFF,
      "        self._started = True\n        started = time.time()\n", "        started = time.time()\n", "C44.4"),
    M("start-flag-test-negated", OFF,
      "        if self._started:\n            return\n", "        if not self._started:\n            return\n", "C44.4"),
    M("start-bypass-returns-without-chain", OFF,
      "                     level=log.UNUSUAL)\n            d = defer.succeed(None)\n        else:\n            # first, find out",
      "                     level=log.UNUSUAL)\n            return\n        else:\n            # first, find out", "C44.4"),
    M("start-bypass-chain-source-dropped", OFF,
      "                     level=log.UNUSUAL)\n            d = defer.succeed(None)\n        else:\n            # first, find out",
      "                     level=log.UNUSUAL)\n        else:\n            # first, find out", "C44.4"),
    # C44.7: one upload helper per storage index; present verdict only with a UEB
    M("race-test-flipped", OFF,
      "        if storage_index in self._active_uploads:\n            self.log(\"upload is currently active\", parent=lp)\n"
      "            uh = self._active_uploads[storage_index]\n        else:",
      "        if storage_index not in self._active_uploads:\n            self.log(\"upload is currently active\", parent=lp)\n"
      "            uh = self._active_uploads[storage_index]\n        else:", "C44.7"),
    M("race-recheck-removed", OFF,
      "        if storage_index in self._active_uploads:\n            self.log(\"upload is currently active\", parent=lp)\n"
      "            uh = self._active_uploads[storage_index]\n        else:\n"
      "            self.log(\"creating new upload helper\", parent=lp)\n"
      "            uh = self._make_chk_upload_helper(storage_index, lp)\n"
      "            self._active_uploads[storage_index] = uh\n            self._add_upload(uh)\n",
      "        self.log(\"creating new upload helper\", parent=lp)\n"
      "        uh = self._make_chk_upload_helper(storage_index, lp)\n"
      "        self._active_uploads[storage_index] = uh\n        self._add_upload(uh)\n", "C44.7"),
    M("upload-helper-registered-only-with-history", OFF,
      "            self._active_uploads[storage_index] = uh\n            self._add_upload(uh)\n",
      "            if self._history:\n                self._active_uploads[storage_index] = uh\n            self._add_upload(uh)\n",
      "C44.7"),
    M("present-verdict-ueb-test-negated", OFF,
      "        if self._ueb_data:\n            found = len(self._found_shares)",
      "        if not self._ueb_data:\n            found = len(self._found_shares)", "C44.7"),
    # C44.8: the offset advance is a callback of the read
    M("client-offset-callback-dropped", UP,
      "            return strings\n        d.addCallback(_read)\n        return d\n\n    def remote_read_encrypted",
      "            return strings\n        return d\n\n    def remote_read_encrypted", "C44.8"),
    M("present-file-results-dropped", OFF,
      "                hur.pushed_shares = 0\n                return hur\n", "                hur.pushed_shares = 0\n                return None\n",
      "C44.7"),
    M("present-file-results-not-returned", OFF,
      "                hur.pushed_shares = 0\n                return hur\n", "                hur.pushed_shares = 0\n", "C44.7"),
    M("client-skip-advances-by-result-size", UP,
      "        def _read(strings):\n            if hash_only:\n                self._offset += length\n",
      "        def _read(strings):\n            if not hash_only:\n                self._offset += length\n", "C44.8"),
    M("client-always-advances-by-result-size", UP,
      "            if hash_only:\n                self._offset += length\n            else:\n"
      "                size = sum([len(data) for data in strings])\n                self._offset += size\n",
      "            size = sum([len(data) for data in strings])\n            self._offset += size\n", "C44.8"),
    M("upload-helper-forgets-storage-index", OFF,
      "        upload.CHKUploader.__init__(self, storage_broker, secret_holder)\n        self._storage_index = storage_index\n",
      "        upload.CHKUploader.__init__(self, storage_broker, secret_holder)\n", "C44.10"),
    M("upload-helper-keeps-printable-storage-index", OFF,
      "        upload.CHKUploader.__init__(self, storage_broker, secret_holder)\n        self._storage_index = storage_index\n",
      "        upload.CHKUploader.__init__(self, storage_broker, secret_holder)\n        self._storage_index = si_b2a(storage_index)\n",
      "C44.10"),
    # C44.10: per-run attribute table (was cached across runs): _f no longer initialised
    M("fetcher-file-attribute-not-initialised", OFF,
      "        self._started = False\n        self._f = None\n", "        self._started = False\n", "C44.10"),
    # -- benign
    M("benign-start-flag-set-later", OFF,
      "        self._started = True\n        started = time.time()\n", "        started = time.time()\n        self._started = True\n", None),
    M("benign-start-flag-is-true", OFF,
      "        if self._started:\n            return\n", "        if self._started is True:\n            return\n", None),
    M("benign-start-flag-guard-inverted", OFF,
      "        if self._started:\n            return\n        self._started = True\n        started = time.time()\n",
      "        if not self._started:\n            self._started = True\n        else:\n            return\n        started = time.time()\n",
      None),
    M("benign-race-test-by-get", OFF,
      "        if storage_index in self._active_uploads:\n            self.log(\"upload is currently active\", parent=lp)\n"
      "            uh = self._active_uploads[storage_index]\n        else:",
      "        uh = self._active_uploads.get(storage_index)\n        if uh is not None:\n"
      "            self.log(\"upload is currently active\", parent=lp)\n        else:", None),
    M("benign-race-branches-swapped", OFF,
      "        if storage_index in self._active_uploads:\n            self.log(\"upload is currently active\", parent=lp)\n"
      "            uh = self._active_uploads[storage_index]\n        else:\n"
      "            self.log(\"creating new upload helper\", parent=lp)\n"
      "            uh = self._make_chk_upload_helper(storage_index, lp)\n"
      "            self._active_uploads[storage_index] = uh\n            self._add_upload(uh)\n",
      "        if not (storage_index in self._active_uploads):\n"
      "            self._active_uploads[storage_index] = self._make_chk_upload_helper(storage_index, lp)\n"
      "            uh = self._active_uploads[storage_index]\n"
      "            self._add_upload(uh)\n        else:\n            uh = self._active_uploads[storage_index]\n", None),
    M("benign-present-verdict-early-return", OFF,
      "        if self._ueb_data:\n            found = len(self._found_shares)\n"
      "            total = self._ueb_data['total_shares']\n"
      "            self.log(format=\"got %(found)d shares of %(total)d\",\n"
      "                     found=found, total=total, level=log.NOISY)\n"
      "            if found < total:\n",
      "        if not self._ueb_data:\n            return False\n        else:\n            found = len(self._found_shares)\n"
      "            total = self._ueb_data['total_shares']\n"
      "            if found < total:\n", None),
    M("benign-present-verdict-hash-is-not-none", OFF,
      "        if self._ueb_data:\n            found = len(self._found_shares)",
      "        if self._ueb_hash is not None:\n            found = len(self._found_shares)", None),
    M("benign-client-offset-callback-renamed", UP,
      "        d = self._eu.read_encrypted(length, hash_only)\n        def _read(strings):\n            if hash_only:\n"
      "                self._offset += length\n",
      "        rd = self._eu.read_encrypted(length, hash_only)\n        def _advance(strings):\n            if hash_only:\n"
      "                self._offset += length\n", None,
      edits=[(UP, "                self._offset += size\n            return strings\n        d.addCallback(_read)\n        return d\n",
              "                self._offset += size\n            return strings\n        rd.addCallback(_advance)\n        return rd\n")]),
    M("benign-present-file-early-none", OFF,
      "            if res:\n                (sharemap, ueb_data, ueb_hash) = res\n",
      "            if not res:\n                return None\n            else:\n                (sharemap, ueb_data, ueb_hash) = res\n", None),
    M("benign-present-file-result-via-local", OFF,
      "                hur.pushed_shares = 0\n                return hur\n",
      "                hur.pushed_shares = 0\n                answer = hur\n                return answer\n", None),
    M("benign-client-advance-branches-swapped", UP,
      "            if hash_only:\n                self._offset += length\n            else:\n"
      "                size = sum([len(data) for data in strings])\n                self._offset += size\n",
      "            if not hash_only:\n                size = sum([len(data) for data in strings])\n                self._offset += size\n"
      "            else:\n                skipped = length\n                self._offset += skipped\n", None),
    M("benign-upload-helper-storage-index-set-later", OFF,
      "        upload.CHKUploader.__init__(self, storage_broker, secret_holder)\n        self._storage_index = storage_index\n"
      "        self._helper = helper\n",
      "        upload.CHKUploader.__init__(self, storage_broker, secret_holder)\n        self._helper = helper\n"
      "        si = storage_index\n        self._storage_index = si\n", None),
    # returned values handed through a local (found by the benign-rewrite sweep)
    M("benign-ret-via-local-start-reading", OFF,
      "        # self._f\n        return d\n", "        # self._f\n        result = d\n        return result\n", None),
    M("benign-ret-via-local-present-verdict", OFF,
      "            return (self._sharemap, self._ueb_data, self._ueb_hash)\n",
      "            verdict = (self._sharemap, self._ueb_data, self._ueb_hash)\n            return verdict\n", None),
    M("benign-ret-via-local-readcap", UP,
      "                    d3.addCallback(put_readcap_into_results)\n                    return d3",
      "                    d3.addCallback(put_readcap_into_results)\n                    rv = d3\n                    return rv", None),
    M("benign-ret-via-local-client-read", UP,
      "            return self._read_encrypted(length, hash_only=False)\n",
      "            dd = self._read_encrypted(length, hash_only=False)\n            return dd\n", None),
    M("benign-ret-via-local-fetch-done", OFF,
      "            return True # all done\n", "            finished = True\n            return finished\n", None),
    M("benign-ret-via-local-not-present", OFF,
      "                hur.pushed_shares = 0\n                return hur\n            return None\n",
      "                hur.pushed_shares = 0\n                return hur\n            nothing = None\n            return nothing\n", None),
    M("benign-needed-eq-zero", OFF, "        if fetch_size == 0:\n", "        if needed == 0:\n", None),
    M("benign-have-plus-form", OFF,
      "                self._have += len(data)\n", "                self._have = self._have + len(data)\n", None),
    M("benign-getsize", OFF,
      "            self._have = os.stat(self._incoming_file)[stat.ST_SIZE]\n",
      "            self._have = os.path.getsize(self._incoming_file)\n", None),
    M("benign-rename-local", OFF,
      "        needed = self._expected_size - self._have\n        fetch_size = min(needed, self.CHUNK_SIZE)\n        if fetch_size == 0:",
      "        remaining = self._expected_size - self._have\n        fetch_size = min(self.CHUNK_SIZE, remaining)\n        if not fetch_size:",
      None),
    M("benign-branches-swapped", OFF,
      "        if os.path.exists(self._encoding_file):\n            self.log(\"ciphertext already present, bypassing fetch\",\n"
      "                     level=log.UNUSUAL)\n            d = defer.succeed(None)\n        else:\n"
      "            # first, find out how large the file is going to be\n            d = self.call(\"get_size\")\n"
      "            d.addCallback(self._got_size)\n            d.addCallback(self._start_reading)\n            d.addCallback(self._done)\n",
      "        if not os.path.exists(self._encoding_file):\n            d = self.call(\"get_size\")\n"
      "            d.addCallback(self._got_size)\n            d.addCallback(self._start_reading)\n            d.addCallback(self._done)\n"
      "        else:\n            d = defer.succeed(None)\n", None),
    M("benign-found-ge-total", OFF, "            if found < total:\n", "            if not (found >= total):\n", None),
    M("benign-readcap-local-renamed", UP,
      "                        v = uri.from_string(uploadresults.get_verifycapstr())\n"
      "                        r = uri.CHKFileURI(key, v.uri_extension_hash, v.needed_shares, v.total_shares, v.size)\n"
      "                        uploadresults.set_uri(r.to_string())",
      "                        vcap = uri.from_string(uploadresults.get_verifycapstr())\n"
      "                        readcap = uri.CHKFileURI(key, vcap.uri_extension_hash, vcap.needed_shares, vcap.total_shares, vcap.size)\n"
      "                        uploadresults.set_uri(readcap.to_string())", None),
    M("benign-done-flag-from-callback", OFF,
      "            return False # not done\n", "            return self._have == self._expected_size\n", None),
    M("benign-string-replace-in-name", OFF,
      "        si_s = si_b2a(storage_index).decode('ascii')\n", "        si_s = si_b2a(storage_index).decode('ascii').replace('=', '')\n", None),
    M("benign-exists-hoisted", OFF,
      "        if os.path.exists(self._encoding_file):\n            self.log(\"ciphertext already present, bypassing fetch\",",
      "        present = os.path.exists(self._encoding_file)\n        if present:\n"
      "            self.log(\"ciphertext already present, bypassing fetch\",", None),
    M("benign-have-default-then-size", OFF,
      "        if os.path.exists(self._incoming_file):\n            self._have = os.stat(self._incoming_file)[stat.ST_SIZE]\n"
      "            self._upload_helper._helper.count(\"chk_upload_helper.resumes\")\n"
      "            self.log(\"we already have %d bytes\" % self._have, level=log.NOISY)\n        else:\n"
      "            self._have = 0\n            self.log(\"we do not have any ciphertext yet\", level=log.NOISY)\n",
      "        self._have = 0\n        if os.path.exists(self._incoming_file):\n"
      "            self._have = os.stat(self._incoming_file)[stat.ST_SIZE]\n", None),
    M("benign-ks-for-loop", UP,
      "        while data:\n            chunk = data.pop(0)\n", "        for chunk in data:\n", None),
    M("benign-ks-encrypt-first", UP,
      "            self._plaintext_hasher.update(chunk)\n            self._update_segment_hash(chunk)\n"
      "            # TODO: we have to encrypt the data (even if hash_only==True)\n"
      "            # because the AES-CTR implementation doesn't offer a\n"
      "            # way to change the counter value. Once it acquires\n"
      "            # this ability, change this to simply update the counter\n"
      "            # before each call to (hash_only==False) encrypt_data\n"
      "            ciphertext = aes.encrypt_data(self._encryptor, chunk)\n",
      "            ciphertext = aes.encrypt_data(self._encryptor, chunk)\n"
      "            self._plaintext_hasher.update(chunk)\n            self._update_segment_hash(chunk)\n", None),
    M("benign-ks-append-unless-hash-only", UP,
      "            if hash_only:\n                self.log(\"  skipping encryption\", level=log.NOISY)\n            else:\n"
      "                cryptdata.append(ciphertext)\n",
      "            if not hash_only:\n                cryptdata.append(ciphertext)\n", None),
    M("benign-ks-empty-chunk-skipped", UP,
      "            bytes_processed += len(chunk)\n            self._plaintext_hasher.update(chunk)\n",
      "            if not chunk:\n                continue\n            bytes_processed += len(chunk)\n"
      "            self._plaintext_hasher.update(chunk)\n", None),
    M("benign-ks-encryptor-is-none-test", UP,
      "        if self._encryptor:\n            return defer.succeed(self._encryptor)\n",
      "        if self._encryptor is not None:\n            return defer.succeed(self._encryptor)\n", None),
    M("benign-fail-deregister-first", OFF,
      "        self._finished_observers.fire(f)\n        self._helper.upload_finished(self._storage_index, 0)\n",
      "        self._helper.upload_finished(self._storage_index, 0)\n        self._finished_observers.fire(f)\n", None),
    M("benign-fail-guarded-close", OFF,
      "                 level=log.UNUSUAL)\n        self._finished_observers.fire(f)\n",
      "                 level=log.UNUSUAL)\n        try:\n            self._reader.close()\n        except Exception:\n"
      "            pass\n        self._finished_observers.fire(f)\n", None),
    M("benign-fail-close-after-deregistering", OFF,
      "        self._helper.upload_finished(self._storage_index, 0)\n        del self._reader\n",
      "        self._helper.upload_finished(self._storage_index, 0)\n        if hasattr(self._reader, \"f\"):\n"
      "            self._reader.f.close()\n        del self._reader\n", None),
    M("benign-fetcher-fail-is-not-none", OFF,
      "        if self._f:\n            self._f.close()\n        self._readers = []\n        self._done_observers.fire(f)",
      "        if self._f is not None:\n            self._f.close()\n        self._readers = []\n        self._done_observers.fire(f)", None),
    M("benign-deregister-with-pop", OFF,
      "        uh = self._active_uploads[storage_index]\n        del self._active_uploads[storage_index]\n",
      "        uh = self._active_uploads.pop(storage_index)\n", None),
    M("benign-ks-action-as-lambda", UP,
      "        d.addCallback(lambda ignored: until(action, condition))\n",
      "        d.addCallback(lambda ignored: until(lambda: self._read_encrypted(accum, hash_only), condition))\n", None),
    M("benign-ks-callback-renamed", UP,
      "            ciphertext_accum.extend(size, ct)\n        d.addCallback(_good)\n",
      "            ciphertext_accum.extend(size, ct)\n        _encrypt_chunk = _good\n        d.addCallback(_encrypt_chunk)\n", None),
    # -- C44.11 one consumer per stateful uploadable
    M("fallback-direct-upload-on-same-eu", UP,
      "                    d2.addCallback(lambda si: uploader.start(eu, si))\n",
      "                    d2.addCallback(lambda si: uploader.start(eu, si))\n"
      "                    def _helper_failed(f):\n"
      "                        self.log(\"helper-assisted upload failed, falling back to a direct upload\",\n"
      "                                 failure=f, level=log.UNUSUAL)\n"
      "                        direct = CHKUploader(storage_broker, self.parent._secret_holder, reactor=reactor)\n"
      "                        self._all_uploads[direct] = None\n"
      "                        return direct.start(eu)\n"
      "                    d2.addErrback(_helper_failed)\n", "C44.11"),
    M("fallback-rewraps-the-consumed-uploadable", UP,
      "                    d2.addCallback(lambda si: uploader.start(eu, si))\n",
      "                    d2.addCallback(lambda si: uploader.start(eu, si))\n"
      "                    d2.addErrback(lambda f: CHKUploader(storage_broker, self.parent._secret_holder).start(\n"
      "                        EncryptAnUploadable(uploadable, self._parentmsgid)))\n", "C44.11"),
    M("direct-upload-retried-once", UP,
      "                    d2.addCallback(lambda x: uploader.start(eu))\n",
      "                    d2.addCallback(lambda x: uploader.start(eu))\n"
      "                    d2.addErrback(lambda f: uploader.start(eu))\n", "C44.11"),
    M("assisted-recontacts-helper-on-failure", UP,
      "        d = self._helper.callRemote(\"upload_chk\", self._storage_index)\n        d.addCallback(self._contacted_helper)\n",
      "        d = self._helper.callRemote(\"upload_chk\", self._storage_index)\n        d.addCallback(self._contacted_helper)\n"
      "        d.addErrback(lambda f: self._helper.callRemote(\"upload_chk\", self._storage_index)\n"
      "                     .addCallback(self._contacted_helper))\n", "C44.11"),
    M("assisted-ciphertext-upload-retried", UP,
      "            d.addCallback(lambda ignored:\n                          upload_helper.callRemote(\"upload\", reu))\n",
      "            d.addCallback(lambda ignored:\n                          upload_helper.callRemote(\"upload\", reu))\n"
      "            d.addErrback(lambda f: upload_helper.callRemote(\"upload\", reu))\n", "C44.11"),
    M("benign-helper-failure-logged", UP,
      "                    d2.addCallback(lambda si: uploader.start(eu, si))\n",
      "                    d2.addCallback(lambda si: uploader.start(eu, si))\n"
      "                    def _helper_failed(f):\n"
      "                        self.log(\"helper-assisted upload of %s failed\" % (eu,), failure=f, level=log.UNUSUAL)\n"
      "                        return f\n"
      "                    d2.addErrback(_helper_failed)\n", None),
    M("benign-ciphertext-upload-addcallbacks", UP,
      "            d.addCallback(lambda ignored:\n                          upload_helper.callRemote(\"upload\", reu))\n",
      "            d.addCallbacks(lambda ignored: upload_helper.callRemote(\"upload\", reu),\n"
      "                           lambda f: f)\n", None),
    M("benign-encrypted-uploadable-alias", UP,
      "        d = self.start_encrypted(eu)\n        def _done(uploadresults):\n",
      "        encrypted = eu\n        d = self.start_encrypted(encrypted)\n        def _done(uploadresults):\n", None),
    # -- C44.12 the need-upload decision rests on this call's grid check
    M("recent-miss-cache-skips-check", OFF,
      "            return (None, uh)\n\n        d = self._check_chk(storage_index, lp)\n",
      "            return (None, uh)\n\n        if time.time() - self._recent_misses.get(storage_index, 0) < 300:\n"
      "            return self._did_chk_check(None, storage_index, lp)\n\n        d = self._check_chk(storage_index, lp)\n",
      "C44.12",
      edits=[(OFF, "        self._active_uploads = {}\n", "        self._active_uploads = {}\n        self._recent_misses = {}\n"),
             (OFF, "        def _checked(res):\n            if res:\n",
              "        def _checked(res):\n            if not res:\n                self._recent_misses[storage_index] = time.time()\n"
              "            if res:\n")]),
    M("recent-miss-cache-inside-check", OFF,
      "        sb = self._storage_broker\n        c = self.chk_checker(sb.get_servers_for_psi, storage_index, lp2)\n",
      "        if time.time() - self._recent_misses.get(storage_index, 0) < 300:\n            return defer.succeed(None)\n"
      "        sb = self._storage_broker\n        c = self.chk_checker(sb.get_servers_for_psi, storage_index, lp2)\n",
      "C44.12",
      edits=[(OFF, "        self._active_uploads = {}\n", "        self._active_uploads = {}\n        self._recent_misses = {}\n"),
             (OFF, "        def _checked(res):\n            if res:\n",
              "        def _checked(res):\n            if not res:\n                self._recent_misses[storage_index] = time.time()\n"
              "            if res:\n")]),
    M("partial-ciphertext-on-disk-skips-check", OFF,
      "            return (None, uh)\n\n        d = self._check_chk(storage_index, lp)\n",
      "            return (None, uh)\n\n"
      "        if os.path.exists(os.path.join(self._chk_incoming, si_b2a(storage_index).decode('ascii'))):\n"
      "            # a client resuming an interrupted transfer\n"
      "            uh = self._make_chk_upload_helper(storage_index, lp)\n"
      "            self._active_uploads[storage_index] = uh\n            self._add_upload(uh)\n"
      "            return (None, uh)\n\n        d = self._check_chk(storage_index, lp)\n", "C44.12"),
    M("check-deferred-replaced-by-remembered-miss", OFF,
      "        d = self._check_chk(storage_index, lp)\n        d.addCallback(self._did_chk_check, storage_index, lp)\n",
      "        if storage_index in self._recent_misses:\n            d = defer.succeed(None)\n        else:\n"
      "            d = self._check_chk(storage_index, lp)\n        d.addCallback(self._did_chk_check, storage_index, lp)\n",
      "C44.12",
      edits=[(OFF, "        self._active_uploads = {}\n", "        self._active_uploads = {}\n        self._recent_misses = set()\n")]),
    M("remembered-results-reported-as-present", OFF,
      "            return (already_present, None)\n",
      "            self._recent_hits[storage_index] = already_present\n            return (already_present, None)\n"
      "        if storage_index in self._recent_hits:\n            return (self._recent_hits[storage_index], None)\n",
      "C44.12",
      edits=[(OFF, "        self._active_uploads = {}\n", "        self._active_uploads = {}\n        self._recent_hits = {}\n")]),
    M("benign-decision-link-as-lambda", OFF,
      "        d.addCallback(self._did_chk_check, storage_index, lp)\n",
      "        d.addCallback(lambda found: self._did_chk_check(found, storage_index, lp))\n", None),
    M("benign-check-deferred-renamed", OFF,
      "        d = self._check_chk(storage_index, lp)\n        d.addCallback(self._did_chk_check, storage_index, lp)\n",
      "        checking = self._check_chk(storage_index, lp)\n        d = checking\n"
      "        d.addCallback(self._did_chk_check, storage_index, lp)\n", None),
    M("benign-active-upload-by-get", OFF,
      "        if storage_index in self._active_uploads:\n            self.log(\"upload is currently active\", parent=lp)\n"
      "            uh = self._active_uploads[storage_index]\n            return (None, uh)\n",
      "        uh = self._active_uploads.get(storage_index)\n        if uh is not None:\n"
      "            self.log(\"upload is currently active\", parent=lp)\n            return (None, uh)\n", None),
    M("benign-checker-hoisted", OFF,
      "        c = self.chk_checker(sb.get_servers_for_psi, storage_index, lp2)\n        d = c.check()\n",
      "        checker = self.chk_checker(sb.get_servers_for_psi, storage_index, lp2)\n        c = checker\n        d = c.check()\n",
      None),
    # -- C44.13 the chunked read loop consumes the whole requested length
    M("loop-ic-stops-on-empty-ciphertext", UP, OLD_READ_LOOP,
      IC_READ_LOOP % {"DEC": "size", "EXIT": "remaining == 0 or not ct"}, "C44.13"),
    M("loop-ic-counts-remainder-when-nothing-produced", UP, OLD_READ_LOOP,
      IC_READ_LOOP % {"DEC": "size if ct else remaining", "EXIT": "remaining == 0"}, "C44.13"),
    M("loop-ic-inlined-stops-on-empty-ciphertext", UP, OLD_READ_LOOP, IC_READ_LOOP_INLINED % {"EOF": "ct"}, "C44.13"),
    M("until-condition-looks-at-ciphertext", UP,
      "            return accum.remaining == 0\n", "            return accum.remaining == 0 or not accum.ciphertext\n", "C44.13"),
    M("until-accumulator-zeroed-when-nothing-produced", UP,
      "            ciphertext_accum.extend(size, ct)\n",
      "            ciphertext_accum.extend(size if ct else ciphertext_accum.remaining, ct)\n", "C44.13"),
    M("benign-loop-ic-faithful", UP, OLD_READ_LOOP, IC_READ_LOOP % {"DEC": "size", "EXIT": "remaining == 0"}, None),
    M("benign-loop-ic-faithful-not-remaining", UP, OLD_READ_LOOP, IC_READ_LOOP % {"DEC": "size", "EXIT": "not remaining"}, None),
    M("benign-loop-ic-inlined-stops-at-plaintext-eof", UP, OLD_READ_LOOP, IC_READ_LOOP_INLINED % {"EOF": "plaintext"}, None),
    M("benign-loop-ic-empty-ciphertext-ends-real-read-only", UP, OLD_READ_LOOP,
      IC_READ_LOOP % {"DEC": "size", "EXIT": "remaining == 0 or (not hash_only and not ct)"}, None),
    M("benign-until-condition-le-zero", UP,
      "            return accum.remaining == 0\n", "            return accum.remaining <= 0\n", None),
    M("benign-until-condition-via-local", UP,
      "            return accum.remaining == 0\n", "            left = accum.remaining\n            return not left\n", None),
    # the loop is no longer a recognisable loop: undecided, not silently passed
    M("undecided-read-loop-by-recursion", UP,
      "        d.addCallback(lambda ignored: until(action, condition))\n",
      "        def again(ignored):\n            if condition():\n                return None\n"
      "            return action().addCallback(again)\n        d.addCallback(lambda ignored: action().addCallback(again))\n",
      "ANALYSIS-ERROR"),
    # -- vanished anchor
    M("vanish-start-reading", OFF, "    def _start_reading(self, res):", "    def _start_readingX(self, res):", "ANALYSIS-ERROR"),
]
