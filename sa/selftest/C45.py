from .runner import M

CK = "src/allmydata/immutable/checker.py"
FN = "src/allmydata/immutable/filenode.py"
RP = "src/allmydata/immutable/repairer.py"
ND = "src/allmydata/immutable/downloader/node.py"
LY = "src/allmydata/immutable/layout.py"

# ReadBucketProxy state (C45.11)
RBP_INIT = "    def __init__(self, rref, server, storage_index):\n"
RBP_HEAD = "class ReadBucketProxy:\n\n" + RBP_INIT
PARSE_HEAD = "        precondition(len(data) >= 0x4)\n"
PARSE_FRESH = PARSE_HEAD + "        self._offsets = {}\n"
# WriteBucketProxy.close (C45.12 = C06.8 / C06.9)
CLOSE_IF = ("        if self._write_buffer.get_queued_bytes() > 0:\n"
            "            d = self._actually_write()\n"
            "        else:\n"
            "            # No data queued, don't send empty string write.\n"
            "            d = defer.succeed(True)\n")
CLOSE_TAIL = ("        d.addCallback(lambda _: self._rref.callRemote(\"close\"))\n"
              "        return d\n")

_ROOTFIX = ("            try:\n                # the root of the block hash tree is this share's leaf of the\n"
       "                # share hash tree, not whatever the share itself claims\n"
       "                share_hash = self.share_hash_tree.get_leaf(self.sharenum)\n"
       "                if not share_hash:\n                    raise hashtree.NotEnoughHashesError\n"
       "                self.block_hash_tree.set_hashes({0: share_hash})\n"
       "                self.block_hash_tree.set_hashes(bh)\n")
_ROOTUNFIX = "            try:\n                self.block_hash_tree.set_hashes(bh)\n"

# The round-5 refactor of the share collection (C45.5): _verify_server_shares and _check_server_shares merged into one
# _examine_server_shares driven by self._verify, collect() written with comprehensions, start() a list comprehension.
# MERGE(good) gives the edits with the line that computes the good set left open.
_GB_OLD = ("            bucketdict, success = result\n\n"
           "            shareverds = []\n"
           "            for (sharenum, bucket) in list(bucketdict.items()):\n"
           "                d = self._download_and_verify(s, sharenum, bucket)\n"
           "                shareverds.append(d)\n\n"
           "            dl = deferredutil.gatherResults(shareverds)\n\n"
           "            def collect(results):\n"
           "                verified = set()\n"
           "                corrupt = set()\n"
           "                incompatible = set()\n"
           "                for succ, sharenum, whynot in results:\n"
           "                    if succ:\n"
           "                        verified.add(sharenum)\n"
           "                    else:\n"
           "                        if whynot == 'corrupt':\n"
           "                            corrupt.add(sharenum)\n"
           "                        elif whynot == 'incompatible':\n"
           "                            incompatible.add(sharenum)\n"
           "                return (verified, s, corrupt, incompatible, success)\n")
_GB_NEW = ("            bucketdict, responded = result\n\n"
           "            if %(flag)s:\n"
           "                dl = deferredutil.gatherResults(\n"
           "                    [self._download_and_verify(s, sharenum, bucket)\n"
           "                     for (sharenum, bucket) in list(bucketdict.items())])\n"
           "            else:\n"
           "                dl = defer.succeed([])\n\n"
           "            def collect(results):\n"
           "                rejected = dict((sharenum, whynot)\n"
           "                                for (succ, sharenum, whynot) in results\n"
           "                                if not succ)\n"
           "                corrupt = set(sharenum\n"
           "                              for (sharenum, whynot) in rejected.items()\n"
           "                              if whynot == 'corrupt')\n"
           "                incompatible = set(sharenum\n"
           "                                   for (sharenum, whynot) in rejected.items()\n"
           "                                   if whynot == 'incompatible')\n"
           "%(good)s"
           "                return (good, s, corrupt, incompatible, responded)\n")
_CSS_OLD = ("    def _check_server_shares(self, s):\n"
            "        \"\"\"Return a deferred which eventually fires with a tuple of\n"
            "        (set(sharenum), server, set(corrupt), set(incompatible),\n"
            "        responded) showing all the shares claimed to be served by this\n"
            "        server. In case the server is disconnected then it fires with\n"
            "        (set(), server, set(), set(), False) (a server disconnecting\n"
            "        when we ask it for buckets is the same, for our purposes, as a\n"
            "        server that says it has none, except that we want to track and\n"
            "        report whether or not each server responded.)\n\n"
            "        see also _verify_server_shares()\n"
            "        \"\"\"\n"
            "        def _curry_empty_corrupted(res):\n"
            "            buckets, responded = res\n"
            "            return (set(buckets), s, set(), set(), responded)\n"
            "        d = self._get_buckets(s, self._verifycap.get_storage_index())\n"
            "        d.addCallback(_curry_empty_corrupted)\n"
            "        return d\n\n")
_START_OLD = ("        ds = []\n"
              "        if self._verify:\n"
              "            for s in self._servers:\n"
              "                ds.append(self._verify_server_shares(s))\n"
              "        else:\n"
              "            for s in self._servers:\n"
              "                ds.append(self._check_server_shares(s))\n\n")
_START_NEW = "        ds = [self._examine_server_shares(s) for s in self._servers]\n"


def MERGE(mid, good, expect, flag="self._verify"):
    return M(mid, CK, "    def _verify_server_shares(self, s):\n", "    def _examine_server_shares(self, s):\n", expect,
             edits=[(CK, _GB_OLD, _GB_NEW % {"good": good, "flag": flag}), (CK, _CSS_OLD, ""), (CK, _START_OLD, _START_NEW)])


MUTANTS = [
    # -- C45.1 UEB hash gate
    M("ueb-compare-wrong-field", CK,
      "        if h != self._verifycap.uri_extension_hash:", "        if h != self._verifycap.storage_index:", "C45.1"),
    M("ueb-compare-only-when-debugging", CK,
      "        if h != self._verifycap.uri_extension_hash:",
      "        if h != self._verifycap.uri_extension_hash and self._fetch_failures is not None:", "C45.1"),
    M("ueb-parsed-before-checked", CK,
      "        d.addCallback(self._check_integrity)\n        d.addCallback(self._parse_and_validate)\n",
      "        d.addCallback(self._parse_and_validate)\n", "C45.1"),
    M("ueb-parsed-elsewhere", CK,
      "        d = veup.start()\n",
      "        d = b.get_uri_extension()\n        d.addCallback(veup._parse_and_validate)\n", "C45.1"),
    # -- C45.2 UEB contents
    M("ueb-size-only-upper-bound", CK,
      "            if d['size'] != self._verifycap.size:", "            if d['size'] > self._verifycap.size:", "C45.2"),
    M("ueb-needed-vs-total", CK,
      "            if d['needed_shares'] != self._verifycap.needed_shares:",
      "            if d['needed_shares'] != self._verifycap.total_shares:", "C45.2"),
    M("ueb-share-root-copy-paste", CK,
      "        self.share_root_hash = d['share_root_hash']", "        self.share_root_hash = d['crypttext_root_hash']", "C45.2"),
    M("ueb-codec-k-not-compared", CK,
      "            if ucpns != self._verifycap.needed_shares:", "            if ucpns > self._verifycap.needed_shares:", "C45.2"),
    M("ueb-num-segments-from-block-size", CK,
      "        self.num_segments = mathutil.div_ceil(self._verifycap.size,\n                                              self.segment_size)",
      "        self.num_segments = mathutil.div_ceil(self._verifycap.size,\n                                              self.block_size)",
      "C45.2"),
    M("ueb-tail-codec-check-dropped", CK,
      "            if utcpns != self._verifycap.needed_shares:", "            if utcpns is None:", "C45.2"),
    # -- C45.3 block / hash validation
    M("block-leaf-not-checked", CK,
      "            self.block_hash_tree.set_hashes(leaves={blocknum: blockhash})\n",
      "            pass\n", "C45.3"),
    M("block-leaf-of-other-block", CK,
      "            self.block_hash_tree.set_hashes(leaves={blocknum: blockhash})\n",
      "            self.block_hash_tree.set_hashes(leaves={0: blockhash})\n", "C45.3"),
    M("hash-failure-only-logged", CK,
      "            log.msg(\" blockhashes:\\n\" + \"\\n\".join(lines) + \"\\n\")\n            raise BadOrMissingHash(le)\n",
      "            log.msg(\" blockhashes:\\n\" + \"\\n\".join(lines) + \"\\n\")\n", "C45.3"),
    M("block-root-from-leaf-zero", CK,
      "                # Get the share hash from the share hash tree.\n                share_hash = self.share_hash_tree.get_leaf(self.sharenum)",
      "                # Get the share hash from the share hash tree.\n                share_hash = self.share_hash_tree.get_leaf(0)", "C45.3"),
    M("crypttext-hashes-not-validated", CK,
      "                crypttext_hash_tree.set_hashes(ct_hashes)\n", "                pass\n", "C45.3"),
    M("sharehash-failure-swallowed", CK,
      "            except (hashtree.BadHashError, hashtree.NotEnoughHashesError) as le:\n                raise BadOrMissingHash(le)\n"
      "        d.addCallback(_got_share_hashes)",
      "            except (hashtree.BadHashError, hashtree.NotEnoughHashesError) as le:\n                log.msg(str(le))\n"
      "        d.addCallback(_got_share_hashes)", "C45.3"),
    M("root-seeded-from-server-data", CK,
      "            bh = dict(enumerate(blockhashes))\n",
      "            bh = dict(enumerate(blockhashes))\n            self.block_hash_tree.set_hashes({0: bh[0]})\n", "C45.3"),
    # -- C45.4 per-share verdict
    M("errback-before-verdict", CK,
      "        d.addCallback(_all_good)\n", "        d.addErrback(log.err)\n        d.addCallback(_all_good)\n", "C45.4"),
    M("last-block-skipped", CK,
      "            for blocknum in range(veup.num_segments):", "            for blocknum in range(veup.num_segments - 1):", "C45.4"),
    M("block-deferred-dropped", CK,
      "                db.addCallback(_discard_result)\n                return db\n",
      "                db.addCallback(_discard_result)\n                return None\n", "C45.4"),
    M("blocks-never-fetched", CK, "        d.addCallback(_get_blocks)\n", "", "C45.4"),
    M("layoutinvalid-tested-first", CK,
      "            elif f.check(layout.ShareVersionIncompatible):\n                return (False, sharenum, 'incompatible')\n"
      "            elif f.check(layout.LayoutInvalid,\n                         layout.RidiculouslyLargeURIExtensionBlock,\n"
      "                         BadOrMissingHash,\n                         BadURIExtensionHashValue):\n"
      "                return (False, sharenum, 'corrupt')\n",
      "            elif f.check(layout.LayoutInvalid,\n                         layout.RidiculouslyLargeURIExtensionBlock,\n"
      "                         BadOrMissingHash,\n                         BadURIExtensionHashValue):\n"
      "                return (False, sharenum, 'corrupt')\n"
      "            elif f.check(layout.ShareVersionIncompatible):\n                return (False, sharenum, 'incompatible')\n",
      "C45.4"),
    M("bad-hash-not-classified", CK,
      "                         BadOrMissingHash,\n                         BadURIExtensionHashValue):",
      "                         BadURIExtensionHashValue):", "C45.4"),
    M("share-tree-root-copy-paste", CK,
      "            share_hash_tree.set_hashes({0: vup.share_root_hash})", "            share_hash_tree.set_hashes({0: vup.crypttext_root_hash})",
      "C45.4"),
    M("blockhashes-not-fetched", CK,
      "            d.addCallback(lambda ign: vrbp.get_all_blockhashes())\n", "", "C45.4"),
    M("remote-failure-counts-as-good", CK,
      "            elif f.check(RemoteException):\n                return (False, sharenum, 'failure')",
      "            elif f.check(RemoteException):\n                return (True, sharenum, None)", "C45.4"),
    M("ueb-checked-against-other-cap", CK,
      "        veup = ValidatedExtendedURIProxy(b, vcap)",
      "        veup = ValidatedExtendedURIProxy(b, vcap.get_verify_cap())", "C45.4"),
    M("verdict-names-other-share", CK, "            return (True, sharenum, None)", "            return (True, 0, None)", "C45.4"),
    # -- C45.5 collection
    M("incompatible-counted-verified", CK,
      "                    if succ:\n                        verified.add(sharenum)",
      "                    if succ or whynot == 'incompatible':\n                        verified.add(sharenum)", "C45.5"),
    M("result-tuple-order", CK,
      "                return (verified, s, corrupt, incompatible, success)",
      "                return (verified, s, incompatible, corrupt, success)", "C45.5"),
    M("verify-flag-inverted", CK, "        if self._verify:\n", "        if not self._verify:\n", "C45.5"),
    M("corrupt-shares-in-sharemap", CK,
      "            for sharenum in corrupt:\n                corruptshare_locators.append((server, SI, sharenum))\n",
      "            for sharenum in corrupt:\n                corruptshare_locators.append((server, SI, sharenum))\n"
      "                verifiedshares.setdefault(sharenum, set()).add(server)\n", "C45.5"),
    M("verify-flag-not-stored", CK,
      "        self._verify = verify # bool", "        self._verify = bool(add_lease) # bool", "C45.5"),
    # the seeded slip: good = everything offered minus corrupt minus incompatible ('disconnect' / 'failure' shares stay in)
    MERGE("merged-good-by-subtraction", "                good = set(bucketdict) - corrupt - incompatible\n", "C45.5"),
    MERGE("merged-good-minus-corrupt-only", "                good = set(bucketdict).difference(corrupt)\n", "C45.5"),
    MERGE("merged-verify-flag-inverted", "                good = set(bucketdict) - set(rejected)\n", "C45.5", flag="not self._verify"),
    # the same effect in the unrefactored shape: the verified set is what is left over
    M("verified-by-exclusion", CK,
      "                    if succ:\n                        verified.add(sharenum)\n                    else:\n"
      "                        if whynot == 'corrupt':\n                            corrupt.add(sharenum)\n"
      "                        elif whynot == 'incompatible':\n                            incompatible.add(sharenum)\n",
      "                    if whynot == 'corrupt':\n                        corrupt.add(sharenum)\n"
      "                    elif whynot == 'incompatible':\n                        incompatible.add(sharenum)\n"
      "                    else:\n                        verified.add(sharenum)\n", "C45.5"),
    M("verifies-with-another-shares-bucket", CK,
      "                d = self._download_and_verify(s, sharenum, bucket)\n",
      "                d = self._download_and_verify(s, sharenum, bucketdict[min(bucketdict)])\n", "C45.5"),
    # -- C45.6 verdict conditions
    M("healthy-with-k-shares", CK,
      "        if len(verifiedshares) == self._verifycap.total_shares:",
      "        if len(verifiedshares) >= self._verifycap.needed_shares:", "C45.6"),
    M("recoverable-needs-k-plus-one", CK,
      "        if len(verifiedshares) >= self._verifycap.needed_shares:\n            recoverable = 1",
      "        if len(verifiedshares) > self._verifycap.needed_shares:\n            recoverable = 1", "C45.6"),
    M("healthy-is-recoverable", CK,
      "                          healthy=healthy, recoverable=bool(recoverable),",
      "                          healthy=bool(recoverable), recoverable=bool(recoverable),", "C45.6"),
    M("good-count-includes-servers", CK,
      "                          count_shares_good=len(verifiedshares),", "                          count_shares_good=len(servers),", "C45.6"),
    M("post-repair-forgets-old-shares", FN,
      "        for shnum, servers in cr.get_sharemap().items():\n            for server in servers:\n                sm.add(shnum, server)\n",
      "", "C45.6"),
    M("post-repair-healthy-with-k", FN,
      "        is_healthy = bool(len(sm) >= verifycap.total_shares)", "        is_healthy = bool(len(sm) >= verifycap.needed_shares)", "C45.6"),
    M("repair-successful-is-recoverable", FN,
      "        crr.repair_successful = is_healthy", "        crr.repair_successful = is_recoverable", "C45.6"),
    # -- C45.7 repair ingredients
    M("repair-default-segsize", RP,
      "            self._encodingparams = (k, happy, N, segsize)", "            self._encodingparams = (k, happy, N, 128*1024)", "C45.7"),
    M("repair-k-n-swapped", RP,
      "            self._encodingparams = (k, happy, N, segsize)", "            self._encodingparams = (N, happy, k, segsize)", "C45.7"),
    M("repair-offset-not-advanced", RP, "        self._offset += length\n", "", "C45.7"),
    M("repair-reads-from-zero", RP,
      "        d = self._filenode.read(mc, self._offset, length)", "        d = self._filenode.read(mc, 0, length)", "C45.7"),
    M("repair-offset-reset-on-close", RP, "    def close(self):\n        pass", "    def close(self):\n        self._offset = 0", "C45.7"),
    M("verify-flag-dropped-on-delegation", FN,
      "        return self._cnode.check_and_repair(monitor, verify, add_lease)",
      "        return self._cnode.check_and_repair(monitor, add_lease=add_lease)", "C45.7"),
    M("readkey-handed-to-cnode", FN,
      "        self._cnode = CiphertextFileNode(verifycap, storage_broker,\n                                         secret_holder, terminator, history)",
      "        self._cnode = CiphertextFileNode(verifycap, storage_broker,\n                                         secret_holder, terminator, filecap.key)",
      "C45.7"),
    # -- C45.8 repair only when needed
    M("repair-unless-recoverable", FN, "        if cr.is_healthy():\n", "        if cr.is_recoverable():\n", "C45.8"),
    M("repair-always", FN,
      "        if cr.is_healthy():\n            crr.post_repair_results = cr\n            return defer.succeed(crr)\n",
      "        crr.post_repair_results = cr\n", "C45.8"),
    M("check-and-repair-never-verifies", FN,
      "                    verify=verify, add_lease=add_lease,\n                    secret_holder=self._secret_holder,",
      "                    verify=False, add_lease=add_lease,\n                    secret_holder=self._secret_holder,", "C45.8"),
    M("repairer-gets-wrong-node", FN,
      "        r = Repairer(self, storage_broker=self._storage_broker,", "        r = Repairer(self._node, storage_broker=self._storage_broker,",
      "C45.8"),
    # -- C45.9 the repairer's segment size (and other encoding inputs)
    M("segsize-guess-for-one-segment-files", ND,      # seeded C45-A
      "        if self.segment_size:\n            return defer.succeed(self.segment_size)\n",
      "        if self.segment_size:\n            return defer.succeed(self.segment_size)\n"
      "        if self.guessed_num_segments == 1:\n            return defer.succeed(self.guessed_segment_size)\n", "C45.9"),
    M("segsize-falls-back-to-guess", ND,
      "        d.addCallback(lambda ign: self._segsize_observers.when_fired())\n        return d\n\n    # things called by the Segmentation",
      "        d.addCallback(lambda ign: self.segment_size or self.guessed_segment_size)\n        return d\n\n    # things called by the Segmentation",
      "C45.9"),
    M("segsize-answered-before-known", ND,
      "        if self.segment_size:\n            return defer.succeed(self.segment_size)\n",
      "        if self.guessed_segment_size:\n            return defer.succeed(self.segment_size)\n", "C45.9"),
    M("segsize-observers-fired-with-guess", ND,
      "        self._segsize_observers.fire(self.segment_size)", "        self._segsize_observers.fire(self.guessed_segment_size)", "C45.9"),
    M("segsize-preset-from-guess", ND,
      "        self.segment_size = None\n        self.tail_segment_size = None\n",
      "        self.segment_size = self.guessed_segment_size if self.guessed_num_segments == 1 else None\n        self.tail_segment_size = None\n",
      "C45.9"),
    M("filenode-segsize-from-default", FN,
      "        self._maybe_create_download_node()\n        return self._node.get_segsize()",
      "        self._maybe_create_download_node()\n        return defer.succeed(self._node.guessed_segment_size)", "C45.9"),
    M("filenode-size-from-download-status", FN,
      "    def get_size(self):\n        return self._verifycap.size\n\n    def raise_error(self):\n        pass\n\n    def is_mutable(self):\n        return False\n\n    def check_and_repair",
      "    def get_size(self):\n        return self._download_status.size\n\n    def raise_error(self):\n        pass\n\n    def is_mutable(self):\n        return False\n\n    def check_and_repair",
      "C45.9"),
    # -- C45.10 block hash tree rooted in the share hash tree
    M("blockhashes-fed-before-root", CK,
      "            if not self.block_hash_tree[0]: # empty -- no root node yet\n",
      "            if self.block_hash_tree.needed_hashes(blocknum):\n                self.block_hash_tree.set_hashes(blockhashes)\n"
      "            if not self.block_hash_tree[0]: # empty -- no root node yet\n", "C45.10"),
    M("root-seeded-only-with-new-share-hashes", CK,
      "            if not self.block_hash_tree[0]: # empty -- no root node yet\n",
      "            if self.share_hash_tree.needed_hashes(self.sharenum): # no share hash yet\n", "C45.10"),
    M("block-tree-rebuilt-per-block", CK,
      "        sharehashes, blockhashes, blockdata = results\n        try:\n            sharehashes = dict(sharehashes)",
      "        sharehashes, blockhashes, blockdata = results\n"
      "        self.block_hash_tree = hashtree.IncompleteHashTree(self.num_blocks)\n        try:\n            sharehashes = dict(sharehashes)",
      "C45.10"),
    # the defect repaired by the fix: commit in /repo (all block hashes accepted into a rootless tree), re-introduced
    M("all-blockhashes-accepted-without-root", CK, _ROOTFIX, _ROOTUNFIX, "C45.10"),
    M("all-blockhashes-root-seeded-after", CK,
      "                self.block_hash_tree.set_hashes({0: share_hash})\n                self.block_hash_tree.set_hashes(bh)\n",
      "                self.block_hash_tree.set_hashes(bh)\n                self.block_hash_tree.set_hashes({0: share_hash})\n", "C45.10"),
    # two other repairs of the same defect: the check is silent on them as well
    M("repair-root-compared-on-every-block", CK,
      "            if not self.block_hash_tree[0]: # empty -- no root node yet\n"
      "                # Get the share hash from the share hash tree.\n"
      "                share_hash = self.share_hash_tree.get_leaf(self.sharenum)\n"
      "                if not share_hash:\n"
      "                    # No root node in block_hash_tree and also the share hash\n"
      "                    # wasn't sent by the server.\n"
      "                    raise hashtree.NotEnoughHashesError\n"
      "                self.block_hash_tree.set_hashes({0: share_hash})\n",
      "            share_hash = self.share_hash_tree.get_leaf(self.sharenum)\n"
      "            if not share_hash:\n"
      "                raise hashtree.NotEnoughHashesError\n"
      "            self.block_hash_tree.set_hashes({0: share_hash})\n", None),
    M("repair-root-seeded-with-the-share-hashes", CK,
      "            except (hashtree.BadHashError, hashtree.NotEnoughHashesError) as le:\n                raise BadOrMissingHash(le)\n"
      "        d.addCallback(_got_share_hashes)",
      "            except (hashtree.BadHashError, hashtree.NotEnoughHashesError) as le:\n                raise BadOrMissingHash(le)\n"
      "            share_hash = self.share_hash_tree.get_leaf(self.sharenum)\n"
      "            if not share_hash:\n                raise BadOrMissingHash()\n"
      "            self.block_hash_tree.set_hashes({0: share_hash})\n"
      "        d.addCallback(_got_share_hashes)", None, edits=[(CK, _ROOTFIX, _ROOTUNFIX)]),
    # -- C45.11 per-instance state of the proxies
    M("offsets-declared-at-class-level", LY, RBP_HEAD,                       # seeded C45-E
      "class ReadBucketProxy:\n\n    _version: int | None = None\n    _fieldsize: int | None = None\n"
      "    _fieldstruct: str | None = None\n    _offsets: dict[str, int] = {}\n\n" + RBP_INIT, "C45.11",
      edits=[(LY, PARSE_FRESH, PARSE_HEAD)]),
    M("offsets-class-dict-cleared-not-replaced", LY, RBP_HEAD,
      "class ReadBucketProxy:\n\n    _offsets = dict()\n\n" + RBP_INIT, "C45.11",
      edits=[(LY, PARSE_FRESH, PARSE_HEAD + "        self._offsets.clear()\n")]),
    M("offsets-mutable-default-argument", LY,
      "    def __init__(self, rref, server, storage_index):\n        self._rref = rref\n        self._server = server\n"
      "        self._storage_index = storage_index\n        self._started = False # sent request to server",
      "    def __init__(self, rref, server, storage_index, offsets={}):\n        self._rref = rref\n        self._server = server\n"
      "        self._storage_index = storage_index\n        self._offsets = offsets\n        self._started = False # sent request to server",
      "C45.11", edits=[(LY, PARSE_FRESH, PARSE_HEAD)]),
    M("offsets-cached-per-storage-index", LY, "FORCE_V2 = False #",           # all shares of a file have one SI
      "_parsed_headers = {}\nFORCE_V2 = False #", "C45.11",
      edits=[(LY, PARSE_FRESH, PARSE_HEAD + "        self._offsets = _parsed_headers.setdefault(self._storage_index, {})\n")]),
    M("offsets-from-class-template", LY, RBP_HEAD,
      "class ReadBucketProxy:\n\n    _NO_OFFSETS = {}\n\n" + RBP_INIT, "C45.11",
      edits=[(LY, PARSE_FRESH, PARSE_HEAD + "        self._offsets = self._NO_OFFSETS\n")]),
    M("offsets-class-level-updated-in-bulk", LY, RBP_HEAD,
      "class ReadBucketProxy:\n\n    _offsets = {}\n\n" + RBP_INIT, "C45.11",
      edits=[(LY, PARSE_FRESH, PARSE_HEAD),
             (LY, "            self._offsets[field_name] = offset\n        return self._offsets\n",
              "            self._offsets.update({field_name: offset})\n        return self._offsets\n")]),
    # sibling site: the write proxy's offset table (one WriteBucketProxy per share being repaired)
    M("write-proxy-offsets-at-class-level", LY,
      "    fieldsize = 4\n    fieldstruct = \">L\"\n", "    fieldsize = 4\n    fieldstruct = \">L\"\n    _offsets = {}\n", "C45.11",
      edits=[(LY, "            raise FileTooLargeError(\"This file is too large to be uploaded (data_size).\")\n\n"
              "        offsets = self._offsets = {}\n        x = 0x24\n",
              "            raise FileTooLargeError(\"This file is too large to be uploaded (data_size).\")\n\n"
              "        offsets = self._offsets\n        x = 0x24\n")]),
    M("benign-write-proxy-offsets-class-default-unused", LY,
      "    fieldsize = 4\n    fieldstruct = \">L\"\n", "    fieldsize = 4\n    fieldstruct = \">L\"\n    _offsets = {}\n", None),
    M("benign-offsets-declared-none", LY, RBP_HEAD,
      "class ReadBucketProxy:\n\n    _version: int | None = None\n    _offsets: dict[str, int] | None = None\n\n" + RBP_INIT, None),
    M("benign-offsets-class-default-still-rebound", LY, RBP_HEAD,
      "class ReadBucketProxy:\n\n    _offsets: dict[str, int] = {}\n\n" + RBP_INIT, None),
    M("benign-offsets-class-default-bound-in-init", LY,
      "class ReadBucketProxy:\n\n    def __init__(self, rref, server, storage_index):\n        self._rref = rref\n",
      "class ReadBucketProxy:\n\n    _offsets: dict[str, int] = {}\n\n"
      "    def __init__(self, rref, server, storage_index):\n        self._offsets = {}\n        self._rref = rref\n", None,
      edits=[(LY, PARSE_FRESH, PARSE_HEAD)]),
    M("benign-offsets-class-default-bound-before-parse", LY, RBP_HEAD,
      "class ReadBucketProxy:\n\n    _offsets: dict[str, int] = {}\n\n" + RBP_INIT, None,
      edits=[(LY, PARSE_FRESH, PARSE_HEAD),
             (LY, "        self._started = True\n        # TODO: for small shares, read the whole bucket in _start()\n",
              "        self._started = True\n        self._offsets = {}\n")]),
    M("benign-offsets-built-in-a-local", LY, RBP_HEAD,
      "class ReadBucketProxy:\n\n    _offsets: dict[str, int] = {}\n\n" + RBP_INIT, None,
      edits=[(LY, PARSE_FRESH, PARSE_HEAD + "        offsets = {}\n"),
             (LY, "            self._offsets[field_name] = offset\n        return self._offsets\n",
              "            offsets[field_name] = offset\n        self._offsets = offsets\n        return offsets\n")]),
    M("benign-offsets-alias", LY,
      "            self._offsets[field_name] = offset\n        return self._offsets\n",
      "            table = self._offsets\n            table[field_name] = offset\n        return self._offsets\n", None),
    # -- C45.12 (C06.8 / C06.9) a repaired share counts only when every write of it was acknowledged
    M("final-write-and-close-back-to-back", LY, CLOSE_IF + CLOSE_TAIL,      # seeded C45-F
      "        if self._write_buffer.get_queued_bytes() > 0:\n"
      "            d = self._actually_write()\n"
      "            d.addErrback(log.err, \"Error from remote call to write an immutable write bucket\")\n"
      "        return self._rref.callRemote(\"close\")\n", "C45.12"),
    M("close-sent-after-failed-write-too", LY, CLOSE_TAIL,
      "        d.addBoth(lambda _: self._rref.callRemote(\"close\"))\n        return d\n", "C45.12"),
    M("close-and-final-write-gathered", LY, CLOSE_TAIL,
      "        d2 = self._rref.callRemote(\"close\")\n        return defer.gatherResults([d, d2])\n", "C45.12.9"),
    M("batched-write-outcome-dropped", LY,
      "            return self._actually_write()\n        else:\n            return defer.succeed(False)\n",
      "            self._actually_write()\n        return defer.succeed(False)\n", "C45.12.8"),
    M("close-without-final-flush", LY, CLOSE_IF, "        d = defer.succeed(True)\n", "C45.12.9"),
    M("benign-close-named-callback", LY, CLOSE_TAIL,
      "        def _send_close(_ign):\n            return self._rref.callRemote(\"close\")\n"
      "        d.addCallback(_send_close)\n        return d\n", None),
    M("benign-close-guard-inverted", LY, CLOSE_IF,
      "        queued = self._write_buffer.get_queued_bytes()\n        if queued == 0:\n"
      "            d = defer.succeed(True)\n        else:\n            d = self._actually_write()\n", None),
    # -- C45.13 where the repairer's encoding parameters come from
    M("repair-segsize-computed-for-small-files", RP,                       # seeded C45-H
      "        d = self._filenode.get_segment_size()\n",
      "        vcap = self._filenode.get_verify_cap()\n        if vcap.size <= 1024*1024:\n"
      "            d = defer.succeed(vcap.size + (-vcap.size % vcap.needed_shares))\n        else:\n"
      "            d = self._filenode.get_segment_size()\n", "C45.13"),
    M("repair-segsize-fallback-on-failure", RP,
      "        d.addCallback(_got_segsize)\n        return d\n",
      "        d.addErrback(lambda f: 128*1024)\n        d.addCallback(_got_segsize)\n        return d\n", "C45.13"),
    M("repair-callback-called-directly", RP,
      "        d.addCallback(_got_segsize)\n        return d\n",
      "        if self._filenode.get_size() <= 3:\n            return defer.maybeDeferred(_got_segsize, 3)\n"
      "        d.addCallback(_got_segsize)\n        return d\n", "C45.13"),
    M("repair-segsize-clamped-in-callback", RP,
      "            vcap = self._filenode.get_verify_cap()\n            k = vcap.needed_shares\n",
      "            vcap = self._filenode.get_verify_cap()\n            k = vcap.needed_shares\n"
      "            if segsize > 1024*1024:\n                segsize = 1024*1024 - (1024*1024 % k)\n", "C45.13"),
    M("repair-segsize-memo-substituted", RP,
      "        d.addCallback(_got_segsize)\n        return d\n",
      "        d.addCallback(lambda s: min(s, 1024*1024))\n        d.addCallback(_got_segsize)\n        return d\n", "C45.13"),
    M("repair-params-preset-by-other-method", RP,
      "    def set_upload_status(self, upload_status):\n        self.upload_status = upload_status\n",
      "    def set_upload_status(self, upload_status):\n        self.upload_status = upload_status\n"
      "        self._encodingparams = (3, 0, 10, 128*1024)\n", "C45.13"),
    M("benign-repair-segsize-chained", RP,
      "        d = self._filenode.get_segment_size()\n        def _got_segsize(segsize):",
      "        def _got_segsize(segsize):", None,
      edits=[(RP, "        d.addCallback(_got_segsize)\n        return d\n",
              "        d = self._filenode.get_segment_size().addCallback(_got_segsize)\n        return d\n")]),
    M("benign-repair-segsize-logged-on-the-way", RP,
      "        d.addCallback(_got_segsize)\n        return d\n",
      "        def _note(s):\n            self.log(\"segment size %d\" % s)\n            return s\n"
      "        d.addCallback(_note)\n        d.addCallback(_got_segsize)\n        return d\n", None),
    M("benign-repair-params-placeholder", RP,
      "        self._offset = 0\n", "        self._offset = 0\n        self._encodingparams = None\n", None),
    M("benign-repair-segsize-alias", RP,
      "            self._encodingparams = (k, happy, N, segsize)", 
      "            seg = segsize\n            self._encodingparams = (k, happy, N, seg)", None),
    # -- C45.14 the Encoder uses what the uploadable (the Repairer) answered
    M("encoder-computes-params-for-small-files", "src/allmydata/immutable/encode.py",
      "        d.addCallback(lambda res: eu.get_all_encoding_parameters())\n",
      "        d.addCallback(lambda res: eu.get_all_encoding_parameters() if self.file_size > 1024*1024\n"
      "                      else (3, 7, 10, mathutil.next_multiple(self.file_size, 3)))\n", "C45.14"),
    M("encoder-clamps-segment-size", "src/allmydata/immutable/encode.py",
      "        k, happy, n, segsize = params\n",
      "        k, happy, n, segsize = params\n        if segsize > 1024*1024:\n            segsize = mathutil.next_multiple(1024*1024, k)\n",
      "C45.14"),
    M("encoder-size-from-status", "src/allmydata/immutable/encode.py",
      "            self.file_size = size\n", "            self.file_size = size or self._status.get_size()\n", "C45.14"),
    M("benign-encoder-params-named-callback", "src/allmydata/immutable/encode.py",
      "        d.addCallback(lambda res: eu.get_all_encoding_parameters())\n",
      "        def _ask_params(res):\n            return eu.get_all_encoding_parameters()\n        d.addCallback(_ask_params)\n", None),
    M("benign-encoder-params-via-attribute", "src/allmydata/immutable/encode.py",
      "        d.addCallback(lambda res: eu.get_all_encoding_parameters())\n",
      "        d.addCallback(lambda res: self._uploadable.get_all_encoding_parameters())\n", None),
    # -- benign
    M("benign-segsize-is-not-none", ND,
      "        if self.segment_size:\n            return defer.succeed(self.segment_size)\n",
      "        if self.segment_size is not None:\n            return defer.succeed(self.segment_size)\n", None),
    M("benign-segsize-local", ND,
      "        if self.segment_size:\n            return defer.succeed(self.segment_size)\n",
      "        known = self.segment_size\n        if known:\n            d0 = defer.succeed(known)\n            return d0\n", None),
    M("benign-segsize-callback-def", ND,
      "        d.addCallback(lambda ign: self._segsize_observers.when_fired())\n        return d\n\n    # things called by the Segmentation",
      "        def _fetched(ign):\n            return self._segsize_observers.when_fired()\n        d.addCallback(_fetched)\n        return d\n\n    # things called by the Segmentation",
      None),
    M("benign-segsize-return-hoisted", ND,
      "        d.addCallback(lambda ign: self._segsize_observers.when_fired())\n        return d\n\n    # things called by the Segmentation",
      "        d.addCallback(lambda ign: self._segsize_observers.when_fired())\n        rv = d\n        return rv\n\n    # things called by the Segmentation",
      None),
    M("benign-ueb-segsize-local", ND,
      "        self.segment_size = d['segment_size']\n        self._segsize_observers.fire(self.segment_size)",
      "        segsize = d['segment_size']\n        self.segment_size = segsize\n        self._segsize_observers.fire(segsize)", None),
    M("benign-block-tree-alias", CK,
      "            if self.block_hash_tree.needed_hashes(blocknum):\n                self.block_hash_tree.set_hashes(blockhashes)\n\n            blockhash",
      "            bht = self.block_hash_tree\n            if bht.needed_hashes(blocknum):\n                bht.set_hashes(blockhashes)\n\n            blockhash",
      None),
    M("benign-root-test-is-none", CK,
      "            if not self.block_hash_tree[0]: # empty -- no root node yet\n",
      "            if self.block_hash_tree[0] is None: # empty -- no root node yet\n", None),
    M("benign-ueb-eq-form", CK,
      "        if h != self._verifycap.uri_extension_hash:", "        if not (self._verifycap.uri_extension_hash == h):", None),
    M("benign-healthy-operands-swapped", CK,
      "        if len(verifiedshares) == self._verifycap.total_shares:", "        if self._verifycap.total_shares == len(verifiedshares):", None),
    M("benign-recoverable-not-lt", CK,
      "        if len(verifiedshares) >= self._verifycap.needed_shares:", "        if not (len(verifiedshares) < self._verifycap.needed_shares):", None),
    M("benign-errb-if-chain", CK,
      "            elif f.check(RemoteException):\n                return (False, sharenum, 'failure')",
      "            if f.check(RemoteException):\n                return (False, sharenum, 'failure')", None),
    M("benign-local-renamed", CK,
      "                # Get the share hash from the share hash tree.\n                share_hash = self.share_hash_tree.get_leaf(self.sharenum)\n                if not share_hash:",
      "                # Get the share hash from the share hash tree.\n                leaf = share_hash = self.share_hash_tree.get_leaf(self.sharenum)\n                if not leaf:", None),
    M("benign-offset-plus-form", RP, "        self._offset += length\n", "        self._offset = self._offset + length\n", None),
    M("benign-size-compare-flipped", CK,
      "            if d['size'] != self._verifycap.size:", "            if not self._verifycap.size == d['size']:", None),
    M("benign-block-hash-inline", CK,
      "            blockhash = block_hash(blockdata)\n            self.block_hash_tree.set_hashes(leaves={blocknum: blockhash})",
      "            blockhash = block_hash(blockdata)\n            leaves = {blocknum: blockhash}\n            self.block_hash_tree.set_hashes(leaves=leaves)",
      None),
    M("benign-healthy-single-assignment", CK,
      "        if len(verifiedshares) == self._verifycap.total_shares:\n            healthy = True\n            summary = \"Healthy\"\n"
      "        else:\n            healthy = False\n            summary = (",
      "        healthy = len(verifiedshares) == self._verifycap.total_shares\n        if healthy:\n            summary = \"Healthy\"\n"
      "        else:\n            summary = (", None),
    M("benign-collect-elif", CK,
      "                    if succ:\n                        verified.add(sharenum)\n                    else:\n"
      "                        if whynot == 'corrupt':\n                            corrupt.add(sharenum)\n"
      "                        elif whynot == 'incompatible':\n                            incompatible.add(sharenum)\n",
      "                    if succ:\n                        verified.add(sharenum)\n                    elif whynot == 'corrupt':\n"
      "                        corrupt.add(sharenum)\n                    elif whynot == 'incompatible':\n"
      "                        incompatible.add(sharenum)\n", None),
    M("benign-maybe-repair-local", FN, "        if cr.is_healthy():\n", "        healthy = cr.is_healthy()\n        if healthy:\n", None),
    M("benign-errb-incompatible-first", CK,
      "            if f.check(DeadReferenceError):\n                return (False, sharenum, 'disconnect')\n"
      "            elif f.check(RemoteException):\n                return (False, sharenum, 'failure')\n"
      "            elif f.check(layout.ShareVersionIncompatible):\n                return (False, sharenum, 'incompatible')\n",
      "            if f.check(layout.ShareVersionIncompatible):\n                return (False, sharenum, 'incompatible')\n"
      "            elif f.check(DeadReferenceError):\n                return (False, sharenum, 'disconnect')\n"
      "            elif f.check(RemoteException):\n                return (False, sharenum, 'failure')\n", None),
    # the same refactor done faithfully: every non-success verdict is subtracted / the good set is built from the successes
    MERGE("benign-merged-minus-all-rejected", "                good = set(bucketdict) - set(rejected)\n", None),
    MERGE("benign-merged-good-from-successes",
          "                if self._verify:\n"
          "                    good = set(sharenum for (succ, sharenum, whynot) in results if succ)\n"
          "                else:\n"
          "                    good = set(bucketdict)\n", None),
    M("benign-collect-comprehensions", CK,
      "                verified = set()\n                corrupt = set()\n                incompatible = set()\n"
      "                for succ, sharenum, whynot in results:\n"
      "                    if succ:\n                        verified.add(sharenum)\n                    else:\n"
      "                        if whynot == 'corrupt':\n                            corrupt.add(sharenum)\n"
      "                        elif whynot == 'incompatible':\n                            incompatible.add(sharenum)\n",
      "                verified = {n for (ok, n, why) in results if ok}\n"
      "                corrupt = {n for (ok, n, why) in results if not ok and why == 'corrupt'}\n"
      "                incompatible = {n for (ok, n, why) in results if not ok and why == 'incompatible'}\n", None),
    # -- vanished anchor
    M("vanish-got-data", CK, "    def _got_data(self, results, blocknum):", "    def _got_dataX(self, results, blocknum):", "ANALYSIS-ERROR"),
    M("vanish-get-buckets", CK, "    def _get_buckets(self, s, storageindex):", "    def _get_buckets_(self, s, storageindex):",
      "ANALYSIS-ERROR"),
]
