from .runner import M
from .C04 import (BEFORE_DECODE_BLOCKS, CAPTURE, CAPTURE_INSIDE, DECODE, DELIVER_HEAD, DELIVER_REST, GUARD_BODY, GUARD_TEST,
                  HELPER_METHOD, HELPER_NESTED, HELPER_UNREADABLE, REGISTER, _deeper)

NODE = "src/allmydata/immutable/downloader/node.py"
FETCH = "src/allmydata/immutable/downloader/fetcher.py"
FINDER = "src/allmydata/immutable/downloader/finder.py"
SEG = "src/allmydata/immutable/downloader/segmentation.py"
STATUS = "src/allmydata/immutable/downloader/status.py"
# the head of SegmentEvent.error (the text before it makes the snippet unique: other event classes have an error() too)
SEG_EV_ERROR = ("        self._ev[\"segment_length\"] = length\n        self._ds.update_last_timestamp(when)\n\n"
                "    def error(self, when):\n")
RETIRE_BODY = ("        self.pending_requests.discard(req)\n        self.overdue_requests.discard(req)\n"
               "        if req in self.overdue_timers:\n            self.overdue_timers[req].cancel()\n"
               "            del self.overdue_timers[req]\n")

# C01-I shape: ShareFinder.loop tidied with two helpers
LOOP_HEAD = "    # internal methods\n    def loop(self):\n"


def _loop_helpers(may_send_more="len(non_overdue) < self.max_outstanding_requests"):
    return ("    # internal methods\n"
            "    def _next_server(self):\n"
            "        if self._servers is None:\n            return None\n"
            "        server = next(self._servers, None)\n"
            "        if server is None:\n            self._servers = None\n"
            "        return server\n\n"
            "    def _may_send_more(self):\n"
            "        non_overdue = self.pending_requests - self.overdue_requests\n"
            "        return %s\n\n"
            "    def loop(self):\n" % may_send_more)


LOOP_GATES = ("        if not self.running:\n            return\n        if not self._hungry:\n            return\n")
LOOP_LIMIT = ("        non_overdue = self.pending_requests - self.overdue_requests\n"
              "        if len(non_overdue) >= self.max_outstanding_requests:\n"
              "            # cannot send more requests, must wait for some to retire\n"
              "            return\n\n")
LOOP_TAKE = ("        server = None\n"
             "        try:\n"
             "            if self._servers:\n"
             "                server = next(self._servers)\n"
             "        except StopIteration:\n"
             "            self._servers = None\n\n"
             "        if server:\n")
LOOP_FAITHFUL = ("        if not self._may_send_more():\n            return\n\n"
                 "        server = self._next_server()\n        if server is not None:\n")

# C03-I shape: _block_request_activity as an if/elif dispatch with the terminal bookkeeping in a helper
BRA_HEAD = "    def _block_request_activity(self, share, shnum, state, block=None, f=None):\n"
BRA_BODY = ("        # COMPLETE, CORRUPT, DEAD, BADSEGNUM are terminal. Remove the share\n"
            "        # from all our tracking lists.\n"
            "        if state in (COMPLETE, CORRUPT, DEAD, BADSEGNUM):\n"
            "            self._share_observers.pop(share, None)\n"
            "            server = share._server # XXX\n"
            "            self._shares_from_server.discard(server, share)\n"
            "            if self._active_share_map.get(shnum) is share:\n"
            "                del self._active_share_map[shnum]\n"
            "            self._overdue_share_map.discard(shnum, share)\n\n"
            "        if state is COMPLETE:\n"
            "            # 'block' is fully validated and complete\n"
            "            self._blocks[shnum] = block\n\n"
            "        if state is OVERDUE:\n"
            "            # no longer active, but still might complete\n"
            "            del self._active_share_map[shnum]\n"
            "            self._overdue_share_map.add(shnum, share)\n"
            "            # OVERDUE is not terminal: it will eventually transition to\n"
            "            # COMPLETE, CORRUPT, or DEAD.\n\n"
            "        if state is DEAD:\n"
            "            self._last_failure = f\n"
            "        if state is BADSEGNUM:\n"
            "            # our main loop will ask the DownloadNode each time for the\n"
            "            # number of segments, so we'll deal with this in the top of\n"
            "            # _do_loop\n"
            "            pass\n")
BRA_DISPATCH = ("        if state is OVERDUE:\n"
                "            del self._active_share_map[shnum]\n"
                "            self._overdue_share_map.add(shnum, share)\n"
                "        elif state in (COMPLETE, CORRUPT, DEAD, BADSEGNUM):\n"
                "            self._forget_share(%s)\n"
                "            if state is COMPLETE:\n"
                "                self._blocks[shnum] = block\n"
                "            elif state is DEAD:\n"
                "                self._last_failure = f\n")


def _forget_share(params="share, shnum", active=None, overdue="        self._overdue_share_map.discard(shnum, share)\n"):
    if active is None:
        active = ("        if self._active_share_map.get(shnum) is share:\n"
                  "            del self._active_share_map[shnum]\n")
    return ("    def _forget_share(self, %s):\n"
            "        self._share_observers.pop(share, None)\n"
            "        server = share._server # XXX\n"
            "        self._shares_from_server.discard(server, share)\n" % params
            + active + overdue + "\n" + BRA_HEAD)


MUTANTS = [
    # ---- C46.1 active-segment typestate
    M("fetch-failed-no-reset", NODE,
      "        assert sf is self._active_segment\n        self._active_segment = None\n",
      "        assert sf is self._active_segment\n", "C46.1"),
    M("deliver-success-no-reset", NODE,
      "                (offset, segment, decodetime) = result\n                self._active_segment = None\n",
      "                (offset, segment, decodetime) = result\n", "C46.1"),
    M("cancel-no-restart", NODE,
      "            seg.stop()\n            self._start_new_segment()\n",
      "            seg.stop()\n", "C46.1"),
    M("fetch-failed-no-restart", NODE,
      "            eventually(self._deliver, d, c, f)\n        self._start_new_segment()\n",
      "            eventually(self._deliver, d, c, f)\n", "C46.1"),
    M("get-segment-no-start", NODE,
      "        self._segment_requests.append( (segnum, d, c, seg_ev, lp) )\n        self._start_new_segment()\n",
      "        self._segment_requests.append( (segnum, d, c, seg_ev, lp) )\n", "C46.1"),
    M("new-fetcher-not-woken", NODE,
      "            fetcher.add_shares(active_shares) # this triggers the loop\n",
      "            if active_shares:\n                fetcher.add_shares(active_shares)\n", "C46.1"),
    M("start-while-active", NODE,
      "        if self._active_segment is None and self._segment_requests:",
      "        if self._segment_requests:", "C46.1"),
    # ---- C46.2 fetcher abandon discipline
    M("badsegnum-no-report", FETCH,
      "            f = Failure(e)\n            self._node.fetch_failed(self, f)\n            return\n",
      "            f = Failure(e)\n            self._last_failure = f\n            return\n", "C46.2"),
    M("process-without-stop", FETCH,
      "            self.stop()\n            self._node.process_blocks(self.segnum, self._blocks)\n",
      "            self._node.process_blocks(self.segnum, self._blocks)\n", "C46.2"),
    M("no-shares-error-stop-dropped", FETCH,
      "        f = Failure(e)\n        self.stop()\n        self._node.fetch_failed(self, f)\n",
      "        f = Failure(e)\n        self._node.fetch_failed(self, f)\n", "C46.2"),
    M("no-shares-error-falls-through", FETCH,
      "                    self._no_shares_error() # this calls self.stop()\n                    return\n",
      "                    self._no_shares_error() # this calls self.stop()\n                    continue\n", "C46.2"),
    M("loop-handler-narrowed", FETCH,
      "        except BaseException:\n            self._node.fetch_failed(self, Failure())\n",
      "        except AssertionError:\n            self._node.fetch_failed(self, Failure())\n", "C46.2"),
    M("loop-handler-only-logs", FETCH,
      "        except BaseException:\n            self._node.fetch_failed(self, Failure())\n",
      "        except BaseException:\n            log.err(Failure(), \"SegmentFetcher.loop\")\n", "C46.2"),
    # ---- C46.3 finder
    M("finder-silent-exhaustion", FINDER,
      "        eventually(self.share_consumer.no_more_shares)\n",
      "        self._hungry = False\n", "C46.3"),
    M("finder-idle-on-no-server", FINDER,
      "            eventually(self.loop)\n            return\n\n        if self.pending_requests:",
      "            eventually(self.loop)\n            return\n\n        if self.pending_requests or self.overdue_timers is not None:",
      "C46.3"),
    M("finder-retire-callback-only", FINDER,
      "        d.addBoth(incidentally, self._request_retired, req)\n",
      "        d.addCallback(incidentally, self._request_retired, req)\n", "C46.3"),
    M("finder-retire-keeps-pending", FINDER,
      "        self.pending_requests.discard(req)\n        self.overdue_requests.discard(req)\n",
      "        self.overdue_requests.discard(req)\n", "C46.3"),
    # ---- C46.4 Segmentation
    M("seg-retired-callback-only", SEG,
      "        d.addBoth(self._request_retired)\n", "        d.addCallback(self._request_retired)\n", "C46.4"),
    M("seg-retired-after-got-segment", SEG,
      "        d.addBoth(self._request_retired)\n        d.addCallback(self._got_segment, wanted_segnum)\n",
      "        d.addCallback(self._got_segment, wanted_segnum)\n        d.addBoth(self._request_retired)\n", "C46.4"),
    M("seg-active-segnum-not-cleared", SEG,
      "        self._active_segnum = None\n        self._cancel_segment_request = None\n        return res\n",
      "        self._cancel_segment_request = None\n        return res\n", "C46.4"),
    M("seg-error-guarded-too-late", SEG,
      "        self._alive = False\n        self._hungry = False\n        self._deferred.errback(f)\n",
      "        alive = self._alive and self._hungry\n        self._alive = False\n        self._hungry = False\n"
      "        if alive:\n            self._deferred.errback(f)\n", "C46.4"),
    M("seg-error-errback-only-when-retried", SEG,
      "            d.addErrback(self._retry_bad_segment)\n        d.addErrback(self._error)\n",
      "            d.addErrback(self._retry_bad_segment)\n            d.addErrback(self._error)\n", "C46.4"),
    M("seg-got-segment-stalls", SEG,
      "        # _read_ev.update with how much decrypt_time was consumed\n        self._maybe_fetch_next()\n",
      "        # _read_ev.update with how much decrypt_time was consumed\n        if self._size == 0:\n"
      "            self._fetch_next()\n", "C46.4"),
    M("seg-stop-producing-silent", SEG,
      "        e = DownloadStopped(\"our Consumer called stopProducing()\")\n        self._deferred.errback(e)\n",
      "        e = DownloadStopped(\"our Consumer called stopProducing()\")\n        log.msg(str(e), parent=self._lp)\n",
      "C46.4"),
    # ---- C46.5 delivery
    M("deliver-addcallback", NODE, "        d.addBoth(_deliver)\n", "        d.addCallback(_deliver)\n", "C46.5"),
    M("fetch-failed-no-deliver", NODE,
      "            seg_ev.error(now())\n            eventually(self._deliver, d, c, f)\n",
      "            seg_ev.error(now())\n", "C46.5"),
    M("deliver-failure-only-logs", NODE,
      "                    seg_ev.error(when)\n                    eventually(self._deliver, d, c, result)\n",
      "                    seg_ev.error(when)\n", "C46.5"),
    M("deliver-never-fires", NODE,
      "            c.active = False # it is now too late to cancel\n            d.callback(result) # might actually be an errback\n",
      "            c.active = False # it is now too late to cancel\n", "C46.5"),
    # ---- behaviour-preserving
    M("benign-reset-tuple-form", NODE,
      "        assert sf is self._active_segment\n        self._active_segment = None\n",
      "        assert sf is self._active_segment\n        sf, self._active_segment = self._active_segment, None\n", None),
    M("benign-node-alias-in-fetcher", FETCH,
      "            self.stop()\n            self._node.process_blocks(self.segnum, self._blocks)\n",
      "            self.stop()\n            node = self._node\n            node.process_blocks(self.segnum, self._blocks)\n", None),
    M("benign-finder-merged-guards", FINDER,
      "        if not self.running:\n            return\n        if not self._hungry:\n            return\n",
      "        if not (self.running and self._hungry):\n            return\n", None),
    M("benign-seg-is-none-form", SEG,
      "        if self._active_segnum is not None:\n            return\n        self._fetch_next()\n",
      "        if self._active_segnum is None:\n            self._fetch_next()\n", None),
    M("benign-cancel-early-return", NODE,
      "        if self._active_segment and self._active_segment.segnum not in segnums:\n"
      "            seg, self._active_segment = self._active_segment, None\n            seg.stop()\n"
      "            self._start_new_segment()\n",
      "        active = self._active_segment\n        if not active or active.segnum in segnums:\n            return\n"
      "        self._active_segment = None\n        active.stop()\n        self._start_new_segment()\n", None),
    # ---- C46.1 / C46.5: the delivery callback may leave the slot and the queue alone only when it has seen that
    #      _active_segment is not the fetcher process_blocks read from it before the decode started (repair 189a9a9)
    M("completion-returns-early-on-unrelated-test", NODE, DELIVER_HEAD,
      DELIVER_HEAD + "            if not self._segment_requests:\n                return\n", "C46.1"),
    M("completion-skips-extraction-on-unrelated-test", NODE, DELIVER_HEAD,
      DELIVER_HEAD + "            if not self._segment_requests:\n                return\n", "C46.5"),
    M("completion-returns-early-when-slot-empty", NODE, DELIVER_HEAD,
      DELIVER_HEAD + "            if self._active_segment is None:\n                return\n", "C46.1"),
    M("completion-early-exit-compares-with-value-read-after-the-gap", NODE, CAPTURE + DECODE, DECODE, "C46.1", edits=CAPTURE_INSIDE),
    M("completion-skips-extraction-comparing-with-value-read-after-the-gap", NODE, CAPTURE + DECODE, DECODE, "C46.5",
      edits=CAPTURE_INSIDE),
    M("completion-guard-inverted", NODE, GUARD_TEST, "            if self._active_segment is fetcher:\n", "C46.1"),
    M("completion-capture-clears-the-slot", NODE, CAPTURE, "        fetcher, self._active_segment = self._active_segment, None\n",
      "C46.1"),
    M("benign-completion-guard-nested", NODE, GUARD_TEST + GUARD_BODY + DELIVER_REST,
      "            if self._active_segment is fetcher:\n" + _deeper(DELIVER_REST), None),
    M("benign-completion-guard-operands-swapped", NODE, GUARD_TEST, "            if fetcher is not self._active_segment:\n", None),
    M("benign-completion-guard-ne", NODE, GUARD_TEST, "            if not self._active_segment == fetcher:\n", None),
    M("benign-completion-guard-flag", NODE, GUARD_TEST,
      "            overtaken = self._active_segment is not fetcher\n            if overtaken:\n", None),
    M("benign-completion-guard-in-nested-helper", NODE, DELIVER_HEAD + GUARD_TEST,
      HELPER_NESTED + DELIVER_HEAD + "            if _abandoned():\n", None),
    M("benign-completion-guard-in-method", NODE, GUARD_TEST, "            if self._overtaken(fetcher):\n", None,
      edits=[(NODE, BEFORE_DECODE_BLOCKS, HELPER_METHOD + BEFORE_DECODE_BLOCKS)]),
    M("completion-guard-in-unreadable-helper", NODE, DELIVER_HEAD + GUARD_TEST,
      HELPER_UNREADABLE + DELIVER_HEAD + "            if _abandoned():\n", "ANALYSIS-ERROR"),
    M("benign-completion-capture-as-callback-argument", NODE, DELIVER_HEAD + GUARD_TEST,
      "        def _deliver(result, mine):\n            if self._active_segment is not mine:\n", None,
      edits=[(NODE, REGISTER, "        d.addBoth(_deliver, fetcher)\n")]),
    M("benign-completion-capture-after-decode-started", NODE, CAPTURE + DECODE, DECODE + CAPTURE, None),
    # ---- vanished anchor
    M("vanish-fetch-failed", NODE, "    def fetch_failed(self, sf, f):", "    def fetch_failedX(self, sf, f):", "ANALYSIS-ERROR"),
    # ---- C46.6 (wake-up discipline adopted from C03; added after seeded change C46-B)
    M("badsegnum-returns-without-loop", "src/allmydata/immutable/downloader/fetcher.py",
      "            # _do_loop\n            pass\n", "            # _do_loop\n            return\n", "C46.6"),
    # ---- added after the mutation sweep (gap review) ------------------------------------------------
    # C46.1: the retiring functions complete for the case they serve; cancel keeps the other requests
    M("fetch-failed-assert-flipped", NODE,
      "        assert sf is self._active_segment\n", "        assert sf is not self._active_segment\n", "C46.1"),
    M("deliver-failure-test-negated", NODE,
      "            if isinstance(result, Failure):\n", "            if not isinstance(result, Failure):\n", "C46.1"),
    M("cancel-drops-the-other-requests", NODE,
      "                                  if t[2] != cancel]", "                                  if t[2] == cancel]", "C46.1"),
    M("benign-cancel-filter-identity", NODE,
      "                                  if t[2] != cancel]", "                                  if not t[2] is cancel]", None),
    M("benign-fetch-failed-explicit-raise", NODE,
      "        assert sf is self._active_segment\n",
      "        if sf is not self._active_segment:\n            raise AssertionError(sf)\n", None),
    M("benign-deliver-failure-flag-hoisted", NODE,
      "            if isinstance(result, Failure):\n",
      "            failed = isinstance(result, Failure)\n            if failed:\n", None),
    # C46.3: a query is only sent to a server taken from the list
    M("finder-server-test-negated", FINDER,
      "        if server:\n            self.send_request(server)\n", "        if not server:\n            self.send_request(server)\n",
      "C46.3"),
    M("finder-server-unbound-when-exhausted", FINDER,
      "        server = None\n        try:\n", "        try:\n", "C46.3"),
    M("benign-finder-server-is-not-none", FINDER,
      "        if server:\n            self.send_request(server)\n",
      "        if server is not None:\n            self.send_request(server)\n", None),
    # C46.3 on the loop tidied with helpers (_next_server() returns an Optional, _may_send_more() holds the limit test)
    M("benign-finder-loop-tidied-with-helpers-faithful", FINDER, LOOP_HEAD, _loop_helpers(), None,
      edits=[(FINDER, LOOP_GATES, "        if not (self.running and self._hungry):\n            return\n"),
             (FINDER, LOOP_LIMIT + LOOP_TAKE, LOOP_FAITHFUL)]),
    M("benign-finder-loop-helpers-server-taken-before-the-limit-test", FINDER, LOOP_HEAD, _loop_helpers(), None,
      edits=[(FINDER, LOOP_GATES, "        if not (self.running and self._hungry):\n            return\n"),
             (FINDER, LOOP_LIMIT + LOOP_TAKE,
              "        server = self._next_server()\n        if server is not None and self._may_send_more():\n")]),
    M("benign-finder-loop-helpers-limit-flag-in-a-local", FINDER, LOOP_HEAD, _loop_helpers(), None,
      edits=[(FINDER, LOOP_LIMIT + LOOP_TAKE,
              "        room = self._may_send_more()\n        if not room:\n            return\n\n"
              "        server = self._next_server()\n        if not server:\n            server = None\n        else:\n")]),
    M("finder-loop-helpers-optional-server-not-tested", FINDER, LOOP_HEAD, _loop_helpers(), "C46.3",
      edits=[(FINDER, LOOP_LIMIT + LOOP_TAKE,
              "        if not self._may_send_more():\n            return\n\n"
              "        server = self._next_server()\n        if self._servers is not None:\n")]),
    M("finder-loop-helpers-limit-helper-also-false-without-servers", FINDER, LOOP_HEAD,
      _loop_helpers("len(non_overdue) < self.max_outstanding_requests and self._servers is not None"), "C46.3",
      edits=[(FINDER, LOOP_LIMIT + LOOP_TAKE, LOOP_FAITHFUL)]),
    M("finder-loop-helpers-limit-helper-inverted-use", FINDER, LOOP_HEAD, _loop_helpers(), "C46.3",
      edits=[(FINDER, LOOP_LIMIT + LOOP_TAKE,
              "        if self._may_send_more():\n            return\n\n"
              "        server = self._next_server()\n        if server is not None:\n")]),
    M("finder-next-with-default-not-tested", FINDER, LOOP_TAKE,
      "        server = None\n        if self._servers is not None:\n            server = next(self._servers, None)\n"
      "        if self._servers is not None:\n", "C46.3"),
    # C46.6.2 on the handler refactored into a dispatch + _forget_share() helper (the bookkeeping is followed into the helper)
    M("benign-bra-dispatch-with-forget-share-helper-faithful", FETCH, BRA_HEAD, _forget_share(), None,
      edits=[(FETCH, BRA_BODY, BRA_DISPATCH % "share, shnum")]),
    M("benign-bra-dispatch-helper-pops-whatever-is-active", FETCH, BRA_HEAD,
      _forget_share(active="        self._active_share_map.pop(shnum, None)\n"), None,
      edits=[(FETCH, BRA_BODY, BRA_DISPATCH % "share, shnum")]),
    M("benign-bra-dispatch-helper-with-other-parameter-names", FETCH, BRA_HEAD,
      _forget_share(params="num, share",
                    active="        if self._active_share_map.get(num) is share:\n            del self._active_share_map[num]\n",
                    overdue="        self._overdue_share_map.discard(num, share)\n"), None,
      edits=[(FETCH, BRA_BODY, BRA_DISPATCH % "shnum, share")]),
    M("bra-dispatch-helper-forgets-the-overdue-map", FETCH, BRA_HEAD, _forget_share(overdue=""), "C46.6",
      edits=[(FETCH, BRA_BODY, BRA_DISPATCH % "share, shnum")]),
    M("bra-dispatch-helper-leaves-the-active-map-for-dead-shares", FETCH, BRA_HEAD,
      _forget_share(params="share, shnum, state",
                    active="        if state is not DEAD and self._active_share_map.get(shnum) is share:\n"
                           "            del self._active_share_map[shnum]\n"), "C46.6",
      edits=[(FETCH, BRA_BODY, BRA_DISPATCH % "share, shnum, state")]),
    M("bra-dispatch-helper-called-with-swapped-arguments", FETCH, BRA_HEAD,
      _forget_share(params="num, share",
                    active="        if self._active_share_map.get(num) is share:\n            del self._active_share_map[num]\n",
                    overdue="        self._overdue_share_map.discard(num, share)\n"), "C46.6",
      edits=[(FETCH, BRA_BODY, BRA_DISPATCH % "share, shnum")]),
    M("bra-dispatch-helper-removes-only-on-one-branch", FETCH, BRA_HEAD,
      _forget_share(active="        if share._server is not None:\n            self._active_share_map.pop(shnum, None)\n"), "C46.6",
      edits=[(FETCH, BRA_BODY, BRA_DISPATCH % "share, shnum")]),
    # C46.4: the read shrinks
    M("seg-size-never-shrinks", SEG,
      "        self._offset += len(desired_data)\n        self._size -= len(desired_data)\n",
      "        self._offset += len(desired_data)\n", "C46.4"),
    M("benign-seg-size-explicit-assignment", SEG,
      "        self._size -= len(desired_data)\n", "        self._size = self._size - len(desired_data)\n", None),
    # C46.5: _extract_requests splits the queue
    M("extract-returns-the-other-segments", NODE,
      "                  if segnum0 == segnum]", "                  if segnum0 != segnum]", "C46.5"),
    M("extract-keeps-only-the-finished", NODE,
      "                                  if t[0] != segnum]", "                                  if t[0] == segnum]", "C46.5"),
    M("benign-extract-indexed-form", NODE,
      "        retire = [(d,c,seg_ev)\n                  for (segnum0,d,c,seg_ev,lp) in self._segment_requests\n"
      "                  if segnum0 == segnum]\n",
      "        retire = [(t[1], t[2], t[3]) for t in self._segment_requests if segnum == t[0]]\n", None),
    # C46.7: the fetcher waits only for something outstanding; its loop makes progress
    M("fetcher-done-test-off-by-one", FETCH,
      "        if len(set(self._blocks.keys())) >= k:\n", "        if len(set(self._blocks.keys())) > k:\n", "C46.7"),
    M("fetcher-exhausted-test-inverted", FETCH,
      "                       | set(self._overdue_share_map.keys())\n                       ) < k:\n",
      "                       | set(self._overdue_share_map.keys())\n                       ) >= k:\n", "C46.7"),
    M("fetcher-while-inclusive", FETCH,
      "                  | set(self._active_share_map.keys())\n                  ) < k:\n",
      "                  | set(self._active_share_map.keys())\n                  ) <= k:\n", "C46.7"),
    M("fetcher-no-more-shares-negated", FETCH,
      "            if self._no_more_shares:\n", "            if not self._no_more_shares:\n", "C46.7"),
    M("fetcher-spins-when-nothing-sent", FETCH,
      "            if sent_something:\n", "            if not sent_something:\n", "C46.7"),
    M("fetcher-raises-limit-unasked", FETCH,
      "            if want_more_diversity:\n", "            if not want_more_diversity:\n", "C46.7"),
    M("fetcher-waits-without-asking", FETCH,
      "            # progress\n            self._ask_for_more_shares()\n", "            # progress\n", ["C46.7", "C46.6"]),
    M("fetcher-idle-while-running", FETCH,
      "        if not self._running:\n            return\n        numsegs, authoritative",
      "        if self._running:\n            return\n        numsegs, authoritative", ["C46.7", "C46.6"]),
    M("benign-fetcher-done-count-hoisted", FETCH,
      "        if len(set(self._blocks.keys())) >= k:\n",
      "        have = len(set(self._blocks.keys()))\n        if not have < k:\n", None),
    M("benign-fetcher-exhausted-guard-inverted", FETCH,
      "            if self._no_more_shares:\n"
      "                # But there are no more shares to be had. If we're going to\n"
      "                # succeed, it will be with the shares we've already seen.\n"
      "                # Will they be enough?\n"
      "                if len(set(self._blocks.keys())\n"
      "                       | set(self._active_share_map.keys())\n"
      "                       | set(self._overdue_share_map.keys())\n"
      "                       ) < k:\n"
      "                    # nope. bail.\n"
      "                    self._no_shares_error() # this calls self.stop()\n"
      "                    return\n",
      "            if not self._no_more_shares:\n"
      "                return\n"
      "            reachable = (set(self._blocks.keys()) | set(self._active_share_map.keys())\n"
      "                         | set(self._overdue_share_map.keys()))\n"
      "            if k > len(reachable):\n"
      "                self._no_shares_error() # this calls self.stop()\n"
      "                return\n", None),
    M("benign-finder-try-else-form", FINDER,
      "        server = None\n        try:\n            if self._servers:\n                server = next(self._servers)\n"
      "        except StopIteration:\n            self._servers = None\n\n        if server:\n"
      "            self.send_request(server)\n"
      "            # we loop again to get parallel queries. The check above will\n"
      "            # prevent us from looping forever.\n"
      "            eventually(self.loop)\n            return\n",
      "        if self._servers:\n            try:\n                server = next(self._servers)\n"
      "            except StopIteration:\n                self._servers = None\n            else:\n"
      "                self.send_request(server)\n                eventually(self.loop)\n                return\n", None),
    M("benign-fetcher-while-true-form", FETCH,
      "        while len(set(self._blocks.keys())\n                  | set(self._active_share_map.keys())\n"
      "                  ) < k:\n",
      "        while True:\n            if not (len(set(self._blocks.keys()) | set(self._active_share_map.keys())) < k):\n"
      "                break\n", None),
    # C46.6: share bookkeeping adopted from C03.2 / C03.7
    M("dead-share-stays-active", FETCH,
      "            if self._active_share_map.get(shnum) is share:\n",
      "            if self._active_share_map.get(shnum) is not share:\n", "C46.6"),
    M("picked-share-never-started", FETCH,
      "            self._shares_from_server.add(server, sh)\n            self._start_share(sh, shnum)\n",
      "            self._shares_from_server.add(server, sh)\n", "C46.6"),
    # ---- C46.8 (added after seeded change C46-E): no status call can abort a delivery loop
    M("error-event-asserts-activation", STATUS, SEG_EV_ERROR,
      SEG_EV_ERROR + "        assert self._ev[\"active_time\"] is not None\n", "C46.8"),
    M("error-event-raises-when-never-activated", STATUS, SEG_EV_ERROR,
      SEG_EV_ERROR + "        if not self._ev[\"active_time\"]:\n            raise ValueError(\"segment request was never activated\")\n",
      "C46.8"),
    M("error-event-checks-in-helper", STATUS, SEG_EV_ERROR,
      "    def _check_active(self):\n        assert self._ev[\"active_time\"] is not None\n\n"
      + SEG_EV_ERROR + "        self._check_active()\n", "C46.8"),
    M("success-loop-no-longer-activates", NODE,
      "                    seg_ev.activate(when)\n                    seg_ev.deliver(when, offset, len(segment), decodetime)\n",
      "                    seg_ev.deliver(when, offset, len(segment), decodetime)\n", "C46.8"),
    M("activate-records-nothing", STATUS,
      "        if self._ev[\"active_time\"] is None:\n            self._ev[\"active_time\"] = when\n",
      "        if self._ev[\"active_time\"] is None:\n            self._ds.update_last_timestamp(when)\n", "C46.8"),
    M("error-event-refuses-an-activated-request", STATUS, SEG_EV_ERROR,
      SEG_EV_ERROR + "        assert self._ev[\"active_time\"] is None\n", "C46.8"),
    M("benign-error-event-asserts-not-finished", STATUS, SEG_EV_ERROR,
      SEG_EV_ERROR + "        assert self._ev[\"finish_time\"] is None\n", None),
    M("benign-deliver-event-explicit-raise", STATUS,
      "        assert self._ev[\"active_time\"] is not None\n        self._ev[\"finish_time\"] = when\n        self._ev[\"success\"] = True\n",
      "        if self._ev[\"active_time\"] is None:\n            raise AssertionError(\"not activated\")\n"
      "        self._ev[\"finish_time\"] = when\n        self._ev[\"success\"] = True\n", None),
    M("benign-activate-truth-test", STATUS,
      "        if self._ev[\"active_time\"] is None:\n            self._ev[\"active_time\"] = when\n",
      "        if not self._ev[\"active_time\"]:\n            self._ev[\"active_time\"] = when\n", None),
    M("benign-error-asserts-activation-and-loops-activate", STATUS, SEG_EV_ERROR,
      SEG_EV_ERROR + "        assert self._ev[\"active_time\"] is not None\n", None,
      edits=[(NODE, "            seg_ev.error(now())\n", "            seg_ev.activate(now())\n            seg_ev.error(now())\n"),
             (NODE, "                    seg_ev.error(when)\n", "                    seg_ev.activate(when)\n                    seg_ev.error(when)\n")]),
    M("benign-error-asserts-activation-and-get-segment-activates", STATUS, SEG_EV_ERROR,
      SEG_EV_ERROR + "        assert self._ev[\"active_time\"] is not None\n", None,
      edits=[(NODE, "        seg_ev = self._download_status.add_segment_request(segnum, now())\n",
              "        seg_ev = self._download_status.add_segment_request(segnum, now())\n        seg_ev.activate(now())\n")]),
    M("activate-refuses-second-activation", STATUS,
      "        if self._ev[\"active_time\"] is None:\n            self._ev[\"active_time\"] = when\n",
      "        assert self._ev[\"active_time\"] is None\n        self._ev[\"active_time\"] = when\n", "C46.8"),
    M("benign-error-event-asserts-argument", STATUS, SEG_EV_ERROR,
      SEG_EV_ERROR + "        assert when is not None\n", None),
    M("benign-delivery-loop-renamed-event", NODE,
      "        for (d,c,seg_ev) in self._extract_requests(sf.segnum):\n            seg_ev.error(now())\n",
      "        for (d,c,ev) in self._extract_requests(sf.segnum):\n            ev.error(now())\n", None),
    M("vanish-status-event-not-queued", NODE,
      "        self._segment_requests.append( (segnum, d, c, seg_ev, lp) )\n",
      "        self._segment_requests.append( [segnum, d, c, seg_ev, lp] )\n", "ANALYSIS-ERROR"),
    # ---- C46.9 (added after seeded change C46-F): the finder retires a request whatever is left of its bookkeeping
    M("retire-pops-timer-first", FINDER, RETIRE_BODY,
      "        self.overdue_timers.pop(req).cancel()\n        self.pending_requests.discard(req)\n"
      "        self.overdue_requests.discard(req)\n", "C46.9"),
    M("retire-deletes-timer-unguarded-first", FINDER, RETIRE_BODY,
      "        timer = self.overdue_timers[req]\n        del self.overdue_timers[req]\n        timer.cancel()\n"
      "        self.pending_requests.discard(req)\n        self.overdue_requests.discard(req)\n", "C46.9"),
    M("retire-cancels-get-result-unchecked", FINDER, RETIRE_BODY,
      "        timer = self.overdue_timers.get(req)\n        timer.cancel()\n"
      "        self.pending_requests.discard(req)\n        self.overdue_requests.discard(req)\n"
      "        self.overdue_timers.pop(req, None)\n", "C46.9"),
    M("retire-removes-overdue-mark-first", FINDER, RETIRE_BODY,
      "        self.overdue_requests.remove(req)\n        self.pending_requests.discard(req)\n"
      "        if req in self.overdue_timers:\n            self.overdue_timers[req].cancel()\n"
      "            del self.overdue_timers[req]\n", "C46.9"),
    M("retire-asserts-timer-present", FINDER, RETIRE_BODY,
      "        assert req in self.overdue_timers\n" + RETIRE_BODY, "C46.9"),
    M("benign-retire-timer-first-guarded", FINDER, RETIRE_BODY,
      "        if req in self.overdue_timers:\n            self.overdue_timers[req].cancel()\n"
      "            del self.overdue_timers[req]\n        self.pending_requests.discard(req)\n"
      "        self.overdue_requests.discard(req)\n", None),
    M("benign-retire-pop-default-then-test", FINDER, RETIRE_BODY,
      "        timer = self.overdue_timers.pop(req, None)\n        if timer is not None:\n            timer.cancel()\n"
      "        self.pending_requests.discard(req)\n        self.overdue_requests.discard(req)\n", None),
    M("benign-retire-try-keyerror", FINDER, RETIRE_BODY,
      "        try:\n            self.overdue_timers.pop(req).cancel()\n        except KeyError:\n            pass\n"
      "        self.pending_requests.discard(req)\n        self.overdue_requests.discard(req)\n", None),
    M("benign-retire-try-finally", FINDER, RETIRE_BODY,
      "        try:\n            if req in self.overdue_timers:\n                self.overdue_timers.pop(req).cancel()\n"
      "        finally:\n            self.pending_requests.discard(req)\n            self.overdue_requests.discard(req)\n", None),
    M("benign-retire-asserts-pending", FINDER, RETIRE_BODY,
      "        assert req in self.pending_requests\n" + RETIRE_BODY, None),
    # ---- C46.10 (added after seeded change C46-H): no status call can die of a field that is still None
    M("error-event-computes-segment-time", STATUS, SEG_EV_ERROR,
      SEG_EV_ERROR + "        self._ev[\"segment_time\"] = when - self._ev[\"active_time\"]\n", "C46.10"),
    M("error-event-elapsed-via-local-get-and-round", STATUS, SEG_EV_ERROR,
      SEG_EV_ERROR + "        started = self._ev.get(\"active_time\")\n        self._ev[\"segment_time\"] = round(when - started, 3)\n",
      "C46.10"),
    M("error-event-elapsed-in-helper-method", STATUS, SEG_EV_ERROR,
      "    def _elapsed(self, when):\n        return when - self._ev[\"active_time\"]\n\n"
      + SEG_EV_ERROR + "        self._ev[\"segment_time\"] = self._elapsed(when)\n", "C46.10"),
    M("error-event-elapsed-in-module-function", STATUS, SEG_EV_ERROR,
      SEG_EV_ERROR + "        self._ev[\"segment_time\"] = _elapsed(self._ev, when)\n", "C46.10",
      edits=[(STATUS, "class SegmentEvent:\n", "def _elapsed(ev, when):\n    return when - ev[\"active_time\"]\n\n\nclass SegmentEvent:\n")]),
    M("error-event-hands-none-to-download-status", STATUS, SEG_EV_ERROR,
      SEG_EV_ERROR + "        self._ds.note_failed_segment(when, self._ev[\"active_time\"])\n", "C46.10",
      edits=[(STATUS, "    def update_last_timestamp(self, when):\n",
              "    def note_failed_segment(self, when, active):\n        self.time_lost = when - active\n\n"
              "    def update_last_timestamp(self, when):\n")]),
    M("error-event-clamps-finish-to-activation", STATUS, SEG_EV_ERROR,
      SEG_EV_ERROR + "        if when < self._ev[\"active_time\"]:\n            when = self._ev[\"active_time\"]\n", "C46.10"),
    M("error-event-rounds-decode-time", STATUS, SEG_EV_ERROR,
      SEG_EV_ERROR + "        self._ev[\"decode_time\"] = round(self._ev[\"decode_time\"], 6)\n", "C46.10"),
    M("error-event-accumulates-into-none", STATUS, SEG_EV_ERROR,
      SEG_EV_ERROR + "        self._ev[\"decode_time\"] += 0.0\n", "C46.10"),
    M("activate-measures-queue-time-from-finish", STATUS,
      "        if self._ev[\"active_time\"] is None:\n            self._ev[\"active_time\"] = when\n",
      "        if self._ev[\"active_time\"] is None:\n            self._ev[\"active_time\"] = when\n"
      "            self._ev[\"queue_time\"] = when - self._ev[\"finish_time\"]\n", "C46.10"),
    M("benign-error-event-segment-time-guarded", STATUS, SEG_EV_ERROR,
      SEG_EV_ERROR + "        if self._ev[\"active_time\"] is not None:\n"
      "            self._ev[\"segment_time\"] = when - self._ev[\"active_time\"]\n", None),
    M("benign-error-event-segment-time-either-branch", STATUS, SEG_EV_ERROR,
      SEG_EV_ERROR + "        if self._ev[\"active_time\"] is None:\n            self._ev[\"segment_time\"] = None\n"
      "        else:\n            self._ev[\"segment_time\"] = when - self._ev[\"active_time\"]\n", None),
    M("benign-error-event-segment-time-conditional-expression", STATUS, SEG_EV_ERROR,
      SEG_EV_ERROR + "        started = self._ev[\"active_time\"]\n"
      "        self._ev[\"segment_time\"] = (when - started) if started is not None else None\n", None),
    M("benign-error-event-segment-time-or-default", STATUS, SEG_EV_ERROR,
      SEG_EV_ERROR + "        self._ev[\"segment_time\"] = when - (self._ev[\"active_time\"] or when)\n", None),
    M("benign-error-event-segment-time-typeerror-handled", STATUS, SEG_EV_ERROR,
      SEG_EV_ERROR + "        try:\n            self._ev[\"segment_time\"] = when - self._ev[\"active_time\"]\n"
      "        except TypeError:\n            self._ev[\"segment_time\"] = None\n", None),
    M("benign-error-event-time-since-request", STATUS, SEG_EV_ERROR,
      SEG_EV_ERROR + "        self._ev[\"segment_time\"] = when - self._ev[\"start_time\"]\n", None),
    M("benign-error-event-activates-itself-first", STATUS, SEG_EV_ERROR,
      SEG_EV_ERROR + "        self.activate(when)\n        self._ev[\"segment_time\"] = when - self._ev[\"active_time\"]\n", None),
    M("benign-deliver-event-computes-segment-time", STATUS,
      "        self._ev[\"segment_start\"] = start\n",
      "        self._ev[\"segment_start\"] = start\n        self._ev[\"segment_time\"] = when - self._ev[\"active_time\"]\n", None),
    M("benign-error-segment-time-and-loops-activate", STATUS, SEG_EV_ERROR,
      SEG_EV_ERROR + "        self._ev[\"segment_time\"] = when - self._ev[\"active_time\"]\n", None,
      edits=[(NODE, "            seg_ev.error(now())\n", "            seg_ev.activate(now())\n            seg_ev.error(now())\n"),
             (NODE, "                    seg_ev.error(when)\n", "                    seg_ev.activate(when)\n                    seg_ev.error(when)\n")]),
    M("benign-error-segment-time-and-loops-shield-status-call", STATUS, SEG_EV_ERROR,
      SEG_EV_ERROR + "        self._ev[\"segment_time\"] = when - self._ev[\"active_time\"]\n", None,
      edits=[(NODE, "            seg_ev.error(now())\n",
              "            try:\n                seg_ev.error(now())\n            except Exception:\n                log.err()\n"),
             (NODE, "                    seg_ev.error(when)\n",
              "                    try:\n                        seg_ev.error(when)\n                    except Exception:\n"
              "                        log.err()\n")]),
    M("error-segment-time-and-only-one-loop-activates", STATUS, SEG_EV_ERROR,
      SEG_EV_ERROR + "        self._ev[\"segment_time\"] = when - self._ev[\"active_time\"]\n", "C46.10",
      edits=[(NODE, "            seg_ev.error(now())\n", "            seg_ev.activate(now())\n            seg_ev.error(now())\n")]),
    M("error-segment-time-and-loop-shields-call-and-firing-together", STATUS, SEG_EV_ERROR,
      SEG_EV_ERROR + "        self._ev[\"segment_time\"] = when - self._ev[\"active_time\"]\n", "C46.10",
      edits=[(NODE, "            seg_ev.error(now())\n            eventually(self._deliver, d, c, f)\n",
              "            try:\n                seg_ev.error(now())\n                eventually(self._deliver, d, c, f)\n"
              "            except Exception:\n                log.err()\n"),
             (NODE, "                    seg_ev.error(when)\n",
              "                    try:\n                        seg_ev.error(when)\n                    except Exception:\n"
              "                        log.err()\n")]),
]
