from .runner import M

PUB = "src/allmydata/mutable/publish.py"
LAY = "src/allmydata/mutable/layout.py"

_FAILURE_OLD = '''        if not self.surprised:
            # We ran out of servers
            msg = "Publish ran out of good servers"
            if self._last_failure:
                msg += ", last failure was: %s" % str(self._last_failure)
            self.log(msg)
            e = NotEnoughServersError(msg)

        else:
            # We ran into shares that we didn't recognize, which means
            # that we need to return an UncoordinatedWriteError.
            self.log("Publish failed with UncoordinatedWriteError")
            e = UncoordinatedWriteError()
'''
_FAILURE_BENIGN = '''        if self.surprised:
            self.log("Publish failed with UncoordinatedWriteError")
            err = UncoordinatedWriteError()
        else:
            msg = "Publish ran out of good servers"
            if self._last_failure:
                msg += ", last failure was: %s" % str(self._last_failure)
            self.log(msg)
            err = NotEnoughServersError(msg)
        e = err
'''

MUTANTS = [
    # ---- C47.1
    M("done-ignores-surprise", PUB,
      "        if num_shnums < self.required_shares or self.surprised:",
      "        if num_shnums < self.required_shares:", "C47.1"),
    M("done-with-k-minus-1", PUB,
      "        if num_shnums < self.required_shares or self.surprised:",
      "        if num_shnums < self.required_shares - 1 or self.surprised:", "C47.1"),
    M("done-counts-goal-not-writers", PUB,
      "        num_shnums = len(self.writers)\n", "        num_shnums = len(self.goal)\n", "C47.1"),
    M("done-from-answer-handler", PUB,
      "        self._update_status()\n        # the next method in the deferred chain will check to see if\n",
      "        self._update_status()\n        if self.placed == self.goal:\n            self._done()\n"
      "        # the next method in the deferred chain will check to see if\n", "C47.1"),
    M("done-in-everything-else-state", PUB,
      "        elif self._state == PUSHING_EVERYTHING_ELSE_STATE:\n            return self.push_everything_else()",
      "        elif self._state == DONE_STATE:\n            return self.push_everything_else()", "C47.1"),
    # ---- C47.2
    M("done-state-set-before-answers", PUB,
      "        d = self.finish_publishing()\n        def _change_state(ignored):\n            self._state = DONE_STATE\n"
      "        d.addCallback(_change_state)\n",
      "        self._state = DONE_STATE\n        d = self.finish_publishing()\n", "C47.2"),
    M("deferredlist-fires-on-first", PUB,
      "        return defer.DeferredList(ds)", "        return defer.DeferredList(ds, fireOnOneCallback=True)", "C47.2"),
    M("writer-deferred-not-collected", PUB,
      "                d.addCallback(self._got_write_answer, writer, started)\n                ds.append(d)\n",
      "                d.addCallback(self._got_write_answer, writer, started)\n", "C47.2"),
    # ---- C47.3
    M("no-connection-problem-errback", PUB,
      "                d.addErrback(self._connection_problem, writer)\n", "", "C47.3"),
    M("outstanding-counter-swallows-result", PUB,
      "                    self.num_outstanding -= 1\n                    return res\n",
      "                    self.num_outstanding -= 1\n", "C47.3"),
    M("connection-problem-keeps-writer", PUB,
      "        self.writers.discard(writer.shnum, writer)\n",
      "        self.bad_servers.add(writer.server)\n", "C47.3"),
    M("connection-problem-discards-only-dead", PUB,
      "        self.writers.discard(writer.shnum, writer)\n",
      "        if f.check(IOError):\n            self.writers.discard(writer.shnum, writer)\n", "C47.3"),
    # ---- C47.4
    M("rejected-write-not-surprising", PUB,
      "            self.surprised = True\n            self.bad_servers.add(server) # don't ask them again\n",
      "            self.bad_servers.add(server) # don't ask them again\n", "C47.4"),
    M("rejected-write-needs-read-data", PUB,
      "        if not wrote:\n            # TODO: there are two possibilities.",
      "        if not wrote and read_data:\n            # TODO: there are two possibilities.", "C47.4"),
    M("record-without-versioninfo", PUB,
      "        if self.versioninfo:\n            self.log(\"wrote successfully: adding new share to servermap\")",
      "        if True:\n            self.log(\"wrote successfully: adding new share to servermap\")", "C47.4"),
    # ---- C47.5
    M("failure-mapping-swapped", PUB,
      "        if not self.surprised:\n            # We ran out of servers",
      "        if self.surprised:\n            # We ran out of servers", "C47.5"),
    M("encode-error-fires-result-directly", PUB,
      "        d.addErrback(self._failure)\n", "        d.addErrback(self.done_deferred.errback)\n", "C47.5"),
    # ---- C47.6
    M("surprise-overwritten-by-later-answer", PUB,
      "                     parent=lp, level=log.WEIRD, umid=\"un9CSQ\")\n            self.surprised = True\n",
      "                     parent=lp, level=log.WEIRD, umid=\"un9CSQ\")\n        self.surprised = surprised\n", "C47.6"),
    M("writer-added-after-failure", PUB,
      "        self._last_failure = f\n        self.writers.discard(writer.shnum, writer)\n",
      "        self._last_failure = f\n        self.writers.discard(writer.shnum, writer)\n"
      "        if f.check(NotEnoughServersError):\n            self.writers.add(writer.shnum, writer)\n", "C47.6"),
    # ---- C47.7
    M("empty-serverlist-check-weakened", PUB,
      "        if not serverlist:\n            raise NotEnoughServersError(",
      "        if not serverlist and not self.goal:\n            raise NotEnoughServersError(", "C47.7"),
    # ---- C47.8
    M("mdmf-proxy-drops-result", LAY,
      "                if on_success: on_success()\n            return results\n",
      "                if on_success: on_success()\n", "C47.8"),
    M("sdmf-proxy-returns-wrote-only", LAY,
      "        return self._storage_server.slot_testv_and_readv_and_writev(\n            self._storage_index,\n"
      "            self._secrets,\n            tw_vectors,\n            # TODO is it useful to read something?\n"
      "            self._readvs,\n        )\n",
      "        d = self._storage_server.slot_testv_and_readv_and_writev(\n            self._storage_index,\n"
      "            self._secrets,\n            tw_vectors,\n            self._readvs,\n        )\n"
      "        d.addCallback(lambda res: res[0])\n        return d\n", "C47.8"),
    # ---- benign
    M("benign-push-condition-rewritten", PUB,
      "        if num_shnums < self.required_shares or self.surprised:",
      "        if self.surprised or not (len(self.writers) >= self.required_shares):", None),
    M("benign-errback-after-callback", PUB,
      "                d.addErrback(self._connection_problem, writer)\n"
      "                d.addCallback(self._got_write_answer, writer, started)\n",
      "                d.addCallback(self._got_write_answer, writer, started)\n"
      "                d.addErrback(self._connection_problem, writer)\n", None),
    M("benign-discard-through-local", PUB,
      "        self.writers.discard(writer.shnum, writer)\n",
      "        w = writer\n        self.writers.discard(w.shnum, w)\n", None),
    M("benign-failure-branches-reordered", PUB, _FAILURE_OLD, _FAILURE_BENIGN, None),
    M("benign-answer-unpacked-by-index", PUB,
      "        wrote, read_data = answer\n", "        wrote = answer[0]\n        read_data = answer[1]\n", None),
    M("benign-state-compared-to-done", PUB,
      "        # If we make it to this point, we were successful in placing the\n        # file.\n        return self._done()",
      "        assert self._state == DONE_STATE\n        return self._done()", None),
    # ---- vanished anchor
    M("vanish-connection-problem", PUB,
      "    def _connection_problem(self, f, writer):", "    def _connection_problemX(self, f, writer):", "ANALYSIS-ERROR"),
    # ---- C47.9 (surprise detection adopted from C12; added after seeded change C47-B)
    M("surprise-flag-last-share-wins", "src/allmydata/mutable/publish.py",
      "                surprised = True\n\n        if surprised:", "                surprised = (checkstring != self._checkstring)\n\n        if surprised:", "C47.9"),
]

SRVF = "src/allmydata/storage/server.py"

_SRV_WRITE_OLD = '''        if testv_is_good:
            # now apply the write vectors
            remaining_shares = self._evaluate_write_vectors(
                bucketdir,
                secrets,
                test_and_write_vectors,
                shares,
            )
            if renew_leases:
                lease_info = self._make_lease_info(renew_secret, cancel_secret)
                self._add_or_renew_leases(remaining_shares.values(), lease_info)
'''
_SRV_WRITE_EARLY_RETURN = '''        if not testv_is_good:
            self.add_latency("writev", self._clock.seconds() - start)
            return (False, read_data)
        remaining_shares = self._evaluate_write_vectors(
            bucketdir,
            secrets,
            test_and_write_vectors,
            shares,
        )
        if renew_leases:
            lease_info = self._make_lease_info(renew_secret, cancel_secret)
            self._add_or_renew_leases(remaining_shares.values(), lease_info)
'''

_PUSH_GATE = "        if num_shnums < self.required_shares or self.surprised:\n            return self._failure()\n"

MUTANTS += [
    # ---- C47.10 (gap review: `return self._failure()` -> `return None` survived the sweep)
    M("push-gives-up-silently", PUB, _PUSH_GATE,
      "        if num_shnums < self.required_shares or self.surprised:\n            return None\n", "C47.10"),
    M("push-too-few-writers-only-logged", PUB, _PUSH_GATE,
      "        if num_shnums < self.required_shares:\n            self.log(\"not enough writers left\")\n            return\n"
      "        if self.surprised:\n            return self._failure()\n", "C47.10"),
    M("benign-push-failure-then-bare-return", PUB, _PUSH_GATE,
      "        if num_shnums < self.required_shares or self.surprised:\n            self._failure()\n            return\n", None),
    M("benign-push-two-separate-checks", PUB, _PUSH_GATE,
      "        if self.surprised:\n            return self._failure()\n"
      "        if self.required_shares > num_shnums:\n            return self._failure()\n", None),
    # ---- C47.11 (gap review: add(shnum, writer) -> add(writer, shnum) survived)
    M("writers-keyed-by-writer", PUB,
      "            self.writers.add(shnum, writer)\n            writer.server = server\n"
      "            known_shares = self._servermap.get_known_shares()\n            if (server, shnum) in known_shares:",
      "            self.writers.add(writer, shnum)\n            writer.server = server\n"
      "            known_shares = self._servermap.get_known_shares()\n            if (server, shnum) in known_shares:", "C47.11"),
    M("writers-keyed-by-server", PUB,
      "            self.writers.add(shnum, writer)\n            writer.server = server\n"
      "            known_shares = self._servermap.get_known_shares()\n            assert (server, shnum) in known_shares",
      "            self.writers.add(server, writer)\n            writer.server = server\n"
      "            known_shares = self._servermap.get_known_shares()\n            assert (server, shnum) in known_shares", "C47.11"),
    M("proxy-share-number-from-wrong-parameter", LAY,
      "        self.shnum = shnum\n        self._storage_server = storage_server\n        self._storage_index = storage_index\n"
      "        self._secrets = secrets\n",
      "        self.shnum = seqnum\n        self._storage_server = storage_server\n        self._storage_index = storage_index\n"
      "        self._secrets = secrets\n", "C47.11"),
    M("benign-writer-filed-through-locals", PUB,
      "            self.writers.add(shnum, writer)\n            writer.server = server\n"
      "            known_shares = self._servermap.get_known_shares()\n            if (server, shnum) in known_shares:",
      "            w = writer\n            sn = shnum\n            self.writers.add(sn, w)\n            writer.server = server\n"
      "            known_shares = self._servermap.get_known_shares()\n            if (server, shnum) in known_shares:", None),
    # ---- C47.5 (gap review: `return self.done_deferred` -> `return None` survived)
    M("publish-returns-push-result", PUB,
      "        self._state = PUSHING_BLOCKS_STATE\n        self._push()\n\n        return self.done_deferred\n\n    def _get_some_writer",
      "        self._state = PUSHING_BLOCKS_STATE\n        return self._push()\n\n    def _get_some_writer", "C47.5"),
    M("benign-result-deferred-through-local", PUB,
      "        self._state = PUSHING_BLOCKS_STATE\n        self._push()\n\n        return self.done_deferred\n\n    def _get_some_writer",
      "        self._state = PUSHING_BLOCKS_STATE\n        result = self.done_deferred\n        self._push()\n        return result\n\n"
      "    def _get_some_writer", None),
    # ---- C47.12 (gap review: `if testv_is_good:` negated survived - the server acknowledges without storing)
    M("server-acks-without-writing", SRVF,
      "        if testv_is_good:\n            # now apply the write vectors",
      "        if not testv_is_good:\n            # now apply the write vectors", "C47.12"),
    M("server-dry-run-for-lease-renewal", SRVF,
      "        if testv_is_good:\n            # now apply the write vectors",
      "        if testv_is_good and renew_leases:\n            # now apply the write vectors", "C47.12"),
    M("benign-server-refusal-returns-early", SRVF, _SRV_WRITE_OLD, _SRV_WRITE_EARLY_RETURN, None),
    M("benign-server-verdict-through-bool", SRVF,
      "        if testv_is_good:\n            # now apply the write vectors",
      "        accepted = bool(testv_is_good)\n        if accepted:\n            # now apply the write vectors", None),
    # ---- C47.9: rules adopted from C12 in the gap review (test vectors, unbound locals, surprise set)
    M("sdmf-proxy-sends-empty-request", LAY,
      "        tw_vectors[self.shnum] = (self._testvs, datavs, None)\n        return self._storage_server.slot_testv_and_readv_and_writev(",
      "        return self._storage_server.slot_testv_and_readv_and_writev(", "C47.9"),
    M("answer-handler-unbound-local", PUB,
      "        surprised = False\n        for shnum in surprise_shares:", "        for shnum in surprise_shares:", "C47.9"),
    M("surprise-set-other-servers", PUB,
      "            shares.extend([x.shnum for x in writers if x.server == server])",
      "            shares.extend([x.shnum for x in writers if x.server != server])", "C47.9"),
]

STC = "src/allmydata/storage_client.py"
HSV = "src/allmydata/storage/http_server.py"
MUT = "src/allmydata/storage/mutable.py"

_REG_ERR = "                d.addErrback(self._connection_problem, writer)\n"
_OUTSTANDING = ("                def _no_longer_outstanding(res):\n                    self.num_outstanding -= 1\n"
                "                    return res\n")

MUTANTS += [
    # ---- C47.3: closures between the writer Deferred and its handlers (seeded change C47-C: late-binding errback)
    M("errback-closure-binds-writer-late", PUB,
      _OUTSTANDING + "\n                d = writer.finish_publishing()\n                d.addBoth(_no_longer_outstanding)\n" + _REG_ERR,
      _OUTSTANDING + "                def _write_failed(f):\n                    return self._connection_problem(f, writer)\n"
      "\n                d = writer.finish_publishing()\n                d.addBoth(_no_longer_outstanding)\n"
      "                d.addErrback(_write_failed)\n", "C47.3"),
    M("errback-lambda-binds-writer-late", PUB, _REG_ERR,
      "                d.addErrback(lambda f: self._connection_problem(f, writer))\n", "C47.3"),
    M("answer-lambda-binds-writer-late", PUB,
      "                d.addCallback(self._got_write_answer, writer, started)\n",
      "                d.addCallback(lambda res: self._got_write_answer(res, writer, started))\n", "C47.3"),
    M("errback-closure-skips-handler-for-some-failures", PUB, _REG_ERR,
      "                def _write_failed(f, w):\n                    if f.check(IOError):\n"
      "                        self._connection_problem(f, w)\n"
      "                d.addErrback(_write_failed, writer)\n", "C47.3"),
    M("errback-closure-default-bound-outside-loop", PUB,
      "        for (shnum, writers) in list(self.writers.copy().items()):\n            for writer in writers:\n"
      "                writer.put_verification_key(verification_key)\n",
      "        writer = self._get_some_writer()\n        def _write_failed(f, w=writer):\n"
      "            return self._connection_problem(f, w)\n"
      "        for (shnum, writers) in list(self.writers.copy().items()):\n            for writer in writers:\n"
      "                writer.put_verification_key(verification_key)\n", "C47.3",
      edits=[(PUB, _REG_ERR, "                d.addErrback(_write_failed)\n")]),
    M("benign-errback-closure-default-binds-writer", PUB, _REG_ERR,
      "                def _write_failed(f, w=writer):\n                    return self._connection_problem(f, w)\n"
      "                d.addErrback(_write_failed)\n", None),
    M("benign-errback-closure-takes-writer-argument", PUB, _REG_ERR,
      "                def _write_failed(f, w):\n                    self.log(\"write to %r failed\" % (w,))\n"
      "                    return self._connection_problem(f, w)\n"
      "                d.addErrback(_write_failed, writer)\n", None),
    M("benign-errback-lambda-default-binds-writer", PUB, _REG_ERR,
      "                d.addErrback(lambda f, w=writer: self._connection_problem(f, writer=w))\n", None),
]

HCL = "src/allmydata/storage/http_client.py"
FSV = "src/allmydata/storage/server.py"

_HTTP_TV = ("                TestVector(offset=offset, size=size, specimen=specimen)\n"
            "                for (offset, size, specimen) in test_vector\n")
_HTTP_TV_LIST = "            client_test_vectors = [\n" + _HTTP_TV + "            ]\n"
_HTTP_RET = "        return (client_result.success, client_result.reads)\n"
_CLIENT_RET = "            return ReadTestWriteResult(success=result[\"success\"], reads=result[\"data\"])\n"
_FOOLSCAP_RET = ("        return self._rref.callRemote(\n            \"slot_testv_and_readv_and_writev\",\n"
                 "            storage_index,\n            secrets,\n            wire_format_tw_vectors,\n            r_vector,\n        )\n")
_FOOLSCAP_D = ("        d = self._rref.callRemote(\n            \"slot_testv_and_readv_and_writev\",\n"
               "            storage_index,\n            secrets,\n            wire_format_tw_vectors,\n            r_vector,\n        )\n")

MUTANTS += [
    # ---- C47.9.16 (seeded change C47-D): the adapters forward the writer's test vectors as given
    M("http-adapter-test-size-from-specimen", STC, _HTTP_TV,
      "                TestVector(offset=offset, size=len(specimen), specimen=specimen)\n"
      "                for (offset, _, specimen) in test_vector\n", "C47.9.16"),
    M("http-adapter-test-size-clipped-in-loop", STC, _HTTP_TV_LIST,
      "            client_test_vectors = []\n            for (offset, size, specimen) in test_vector:\n"
      "                size = min(size, len(specimen))\n"
      "                client_test_vectors.append(TestVector(offset=offset, size=size, specimen=specimen))\n", "C47.9.16"),
    M("foolscap-adapter-drops-empty-slot-guard", STC,
      "                [(start, length, b\"eq\", data) for (start, length, data) in value[0]],\n",
      "                [(start, length, b\"eq\", data) for (start, length, data) in value[0] if data],\n", "C47.9.16"),
    M("benign-http-adapter-test-vectors-by-loop", STC, _HTTP_TV_LIST,
      "            client_test_vectors = []\n            for tv in test_vector:\n"
      "                (where, how_many, expected) = tv\n"
      "                client_test_vectors.append(TestVector(where, how_many, expected))\n", None),
    # ---- C47.9.17: the wire hops
    M("http-handler-test-size-from-specimen", HSV,
      "                            (d[\"offset\"], d[\"size\"], b\"eq\", d[\"specimen\"])\n",
      "                            (d[\"offset\"], len(d[\"specimen\"]), b\"eq\", d[\"specimen\"])\n", "C47.9.17"),
    M("http-handler-tests-first-vector-only", HSV,
      "                            for d in v[\"test\"]\n", "                            for d in v[\"test\"][:1]\n", "C47.9.17"),
    M("foolscap-server-object-forgets-test-vectors", FSV,
      "        return self._server.slot_testv_and_readv_and_writev(\n            storage_index,\n            secrets,\n"
      "            test_and_write_vectors,\n",
      "        return self._server.slot_testv_and_readv_and_writev(\n            storage_index,\n            secrets,\n"
      "            {k: ([], v[1], v[2]) for (k, v) in test_and_write_vectors.items()},\n", "C47.9.17"),
    M("benign-http-handler-element-through-local", HSV,
      "                            (d[\"offset\"], d[\"size\"], b\"eq\", d[\"specimen\"])\n"
      "                            for d in v[\"test\"]\n",
      "                            (tv[\"offset\"], tv[\"size\"], b\"eq\", tv[\"specimen\"])\n"
      "                            for tv in v[\"test\"]\n", None),
    # ---- C47.9.18: what the server compares
    M("server-test-reads-specimen-length", MUT,
      "                data = self._read_share_data(f, offset, length)\n",
      "                data = self._read_share_data(f, offset, len(specimen))\n", "C47.9.18"),
    M("server-test-compare-prefix", MUT, "    return a == b\n", "    return a.startswith(b)\n", "C47.9.18"),
    M("benign-server-test-continue-after-failure", MUT,
      "                    test_good = False\n                    break\n",
      "                    test_good = False\n                    continue\n", None),
    # ---- C47.13.10 / C47.13.9: the write vectors and new_length travel unchanged as well
    M("http-adapter-skips-empty-writes", STC,
      "WriteVector(offset=offset, data=data) for (offset, data) in data_vector\n",
      "WriteVector(offset=offset, data=data) for (offset, data) in data_vector if data\n", "C47.13.10"),
    M("http-adapter-sends-first-write-only", STC,
      "WriteVector(offset=offset, data=data) for (offset, data) in data_vector\n",
      "WriteVector(offset=offset, data=data) for (offset, data) in data_vector[:1]\n", "C47.13.10"),
    M("foolscap-adapter-write-vector-truncated", STC, "                value[1],\n                value[2],\n",
      "                value[1][:1],\n                value[2],\n", "C47.13.10"),
    M("http-handler-write-offsets-lost", HSV,
      "[(d[\"offset\"], d[\"data\"]) for d in v[\"write\"]],", "[(0, d[\"data\"]) for d in v[\"write\"]],", "C47.13.9"),
    M("http-handler-skips-empty-writes", HSV,
      "[(d[\"offset\"], d[\"data\"]) for d in v[\"write\"]],", "[(d[\"offset\"], d[\"data\"]) for d in v[\"write\"] if d[\"data\"]],",
      "C47.13.9"),
    M("http-handler-always-answers-success", HSV, "{\"success\": success, \"data\": read_data}",
      "{\"success\": True, \"data\": read_data}", ["C47.13.9", "C47.14"]),
    M("benign-http-adapter-write-vectors-by-loop", STC,
      "            client_write_vectors = [\n                WriteVector(offset=offset, data=data) for (offset, data) in data_vector\n"
      "            ]\n",
      "            client_write_vectors = []\n            for (where, what) in data_vector:\n"
      "                client_write_vectors.append(WriteVector(offset=where, data=what))\n", None),
    # ---- C47.14: the answer's way back
    M("http-adapter-always-acknowledged", STC, _HTTP_RET, "        return (True, client_result.reads)\n", "C47.14"),
    M("http-adapter-answer-swapped", STC, _HTTP_RET, "        return (client_result.reads, client_result.success)\n", "C47.14"),
    M("http-adapter-verdict-is-nonempty-reads", STC, _HTTP_RET,
      "        wrote = bool(client_result.reads)\n        return (wrote, client_result.reads)\n", "C47.14"),
    M("http-client-verdict-from-status-code", HCL, _CLIENT_RET,
      "            return ReadTestWriteResult(success=(response.code == http.OK), reads=result[\"data\"])\n", "C47.14"),
    M("http-client-result-keys-swapped", HCL, _CLIENT_RET,
      "            return ReadTestWriteResult(success=result[\"data\"], reads=result[\"success\"])\n", "C47.14"),
    M("foolscap-adapter-answer-rewritten", STC, _FOOLSCAP_RET,
      _FOOLSCAP_D + "        d.addCallback(lambda res: (True, res[1]))\n        return d\n", "C47.14"),
    M("foolscap-adapter-fire-and-forget", STC, _FOOLSCAP_RET,
      _FOOLSCAP_D + "        d.addErrback(log.err)\n        return defer.succeed((True, {}))\n", "C47.14"),
    M("benign-http-adapter-answer-through-locals", STC, _HTTP_RET,
      "        wrote = client_result.success\n        read_data = client_result.reads\n        answer = (wrote, read_data)\n"
      "        return answer\n", None),
    M("benign-http-client-result-positional", HCL, _CLIENT_RET,
      "            verdict = result[\"success\"]\n            return ReadTestWriteResult(verdict, result[\"data\"])\n", None),
    M("benign-http-result-fields-renamed", HCL, _CLIENT_RET,
      "            return ReadTestWriteResult(wrote=result[\"success\"], reads=result[\"data\"])\n", None,
      edits=[(HCL, "    success: bool\n    # Map share numbers to reads corresponding to the request's list of\n",
              "    wrote: bool\n    # Map share numbers to reads corresponding to the request's list of\n"),
             (STC, _HTTP_RET, "        return (client_result.wrote, client_result.reads)\n")]),
    M("benign-foolscap-adapter-pass-through-callback", STC, _FOOLSCAP_RET,
      _FOOLSCAP_D + "        def _answered(res):\n            return res\n        d.addCallback(_answered)\n        return d\n", None),
]

# ---- "refactor with a slip" C12-I (layout.py helpers checkstring_to_testvs / make_tw_vectors), seen through the
# adopted C12 clauses (C47.9.*); the edits are shared with the C12 self-test
from .C12 import tw_helper_refactor as _twh

MUTANTS += [
    _twh("benign-refactor-tw-vector-helpers-faithful", None),
    _twh("refactor-tw-vector-helpers-fallback-only-for-none", "C47.9", fallback_test="testvs is None"),
    _twh("refactor-tw-vector-helpers-empty-checkstring-vector", "C47.9",
         cs_body="    return [(0, len(checkstring), checkstring)]"),
]

# ---- "refactor with a slip" C47-I (publish.py: surprise-share scan in the method _check_for_surprise_shares)
from .C12 import surprise_helper_refactor as _ssh

MUTANTS += [
    _ssh("benign-refactor-surprise-scan-helper-faithful", None),
    _ssh("refactor-surprise-scan-helper-flag-assigned", ["C47.6", "C47.9"],
         call="        self.surprised = self._check_for_surprise_shares(writer, read_data, lp)\n\n"),
    _ssh("refactor-surprise-scan-helper-result-dropped", "C47.9",
         call="        self._check_for_surprise_shares(writer, read_data, lp)\n\n"),
]
