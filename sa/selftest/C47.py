from .runner import M

PUB = "src/allmydata/mutable/publish.py"
LAY = "src/allmydata/mutable/layout.py"

_FAILURE_OLD = '''        if not self.surprised:
            # We ran out of servers
            msg = "Publish ran out of good servers"
            if self._last_failure:
                msg += ", last failure was: %s" % str(self._last_failure)
            self.log(msg)
            e = NotEnoughServersError(msg)

        else:
            # We ran into shares that we didn't recognize, which means
            # that we need to return an UncoordinatedWriteError.
            self.log("Publish failed with UncoordinatedWriteError")
            e = UncoordinatedWriteError()
'''
_FAILURE_BENIGN = '''        if self.surprised:
            self.log("Publish failed with UncoordinatedWriteError")
            err = UncoordinatedWriteError()
        else:
            msg = "Publish ran out of good servers"
            if self._last_failure:
                msg += ", last failure was: %s" % str(self._last_failure)
            self.log(msg)
            err = NotEnoughServersError(msg)
        e = err
'''

MUTANTS = [
    # ---- C47.1
    M("done-ignores-surprise", PUB,
      "        if num_shnums < self.required_shares or self.surprised:",
      "        if num_shnums < self.required_shares:", "C47.1"),
    M("done-with-k-minus-1", PUB,
      "        if num_shnums < self.required_shares or self.surprised:",
      "        if num_shnums < self.required_shares - 1 or self.surprised:", "C47.1"),
    M("done-counts-goal-not-writers", PUB,
      "        num_shnums = len(self.writers)\n", "        num_shnums = len(self.goal)\n", "C47.1"),
    M("done-from-answer-handler", PUB,
      "        self._update_status()\n        # the next method in the deferred chain will check to see if\n",
      "        self._update_status()\n        if self.placed == self.goal:\n            self._done()\n"
      "        # the next method in the deferred chain will check to see if\n", "C47.1"),
    M("done-in-everything-else-state", PUB,
      "        elif self._state == PUSHING_EVERYTHING_ELSE_STATE:\n            return self.push_everything_else()",
      "        elif self._state == DONE_STATE:\n            return self.push_everything_else()", "C47.1"),
    # ---- C47.2
    M("done-state-set-before-answers", PUB,
      "        d = self.finish_publishing()\n        def _change_state(ignored):\n            self._state = DONE_STATE\n"
      "        d.addCallback(_change_state)\n",
      "        self._state = DONE_STATE\n        d = self.finish_publishing()\n", "C47.2"),
    M("deferredlist-fires-on-first", PUB,
      "        return defer.DeferredList(ds)", "        return defer.DeferredList(ds, fireOnOneCallback=True)", "C47.2"),
    M("writer-deferred-not-collected", PUB,
      "                d.addCallback(self._got_write_answer, writer, started)\n                ds.append(d)\n",
      "                d.addCallback(self._got_write_answer, writer, started)\n", "C47.2"),
    # ---- C47.3
    M("no-connection-problem-errback", PUB,
      "                d.addErrback(self._connection_problem, writer)\n", "", "C47.3"),
    M("outstanding-counter-swallows-result", PUB,
      "                    self.num_outstanding -= 1\n                    return res\n",
      "                    self.num_outstanding -= 1\n", "C47.3"),
    M("connection-problem-keeps-writer", PUB,
      "        self.writers.discard(writer.shnum, writer)\n",
      "        self.bad_servers.add(writer.server)\n", "C47.3"),
    M("connection-problem-discards-only-dead", PUB,
      "        self.writers.discard(writer.shnum, writer)\n",
      "        if f.check(IOError):\n            self.writers.discard(writer.shnum, writer)\n", "C47.3"),
    # ---- C47.4
    M("rejected-write-not-surprising", PUB,
      "            self.surprised = True\n            self.bad_servers.add(server) # don't ask them again\n",
      "            self.bad_servers.add(server) # don't ask them again\n", "C47.4"),
    M("rejected-write-needs-read-data", PUB,
      "        if not wrote:\n            # TODO: there are two possibilities.",
      "        if not wrote and read_data:\n            # TODO: there are two possibilities.", "C47.4"),
    M("record-without-versioninfo", PUB,
      "        if self.versioninfo:\n            self.log(\"wrote successfully: adding new share to servermap\")",
      "        if True:\n            self.log(\"wrote successfully: adding new share to servermap\")", "C47.4"),
    # ---- C47.5
    M("failure-mapping-swapped", PUB,
      "        if not self.surprised:\n            # We ran out of servers",
      "        if self.surprised:\n            # We ran out of servers", "C47.5"),
    M("encode-error-fires-result-directly", PUB,
      "        d.addErrback(self._failure)\n", "        d.addErrback(self.done_deferred.errback)\n", "C47.5"),
    # ---- C47.6
    M("surprise-overwritten-by-later-answer", PUB,
      "                     parent=lp, level=log.WEIRD, umid=\"un9CSQ\")\n            self.surprised = True\n",
      "                     parent=lp, level=log.WEIRD, umid=\"un9CSQ\")\n        self.surprised = surprised\n", "C47.6"),
    M("writer-added-after-failure", PUB,
      "        self._last_failure = f\n        self.writers.discard(writer.shnum, writer)\n",
      "        self._last_failure = f\n        self.writers.discard(writer.shnum, writer)\n"
      "        if f.check(NotEnoughServersError):\n            self.writers.add(writer.shnum, writer)\n", "C47.6"),
    # ---- C47.7
    M("empty-serverlist-check-weakened", PUB,
      "        if not serverlist:\n            raise NotEnoughServersError(",
      "        if not serverlist and not self.goal:\n            raise NotEnoughServersError(", "C47.7"),
    # ---- C47.8
    M("mdmf-proxy-drops-result", LAY,
      "                if on_success: on_success()\n            return results\n",
      "                if on_success: on_success()\n", "C47.8"),
    M("sdmf-proxy-returns-wrote-only", LAY,
      "        return self._storage_server.slot_testv_and_readv_and_writev(\n            self._storage_index,\n"
      "            self._secrets,\n            tw_vectors,\n            # TODO is it useful to read something?\n"
      "            self._readvs,\n        )\n",
      "        d = self._storage_server.slot_testv_and_readv_and_writev(\n            self._storage_index,\n"
      "            self._secrets,\n            tw_vectors,\n            self._readvs,\n        )\n"
      "        d.addCallback(lambda res: res[0])\n        return d\n", "C47.8"),
    # ---- benign
    M("benign-push-condition-rewritten", PUB,
      "        if num_shnums < self.required_shares or self.surprised:",
      "        if self.surprised or not (len(self.writers) >= self.required_shares):", None),
    M("benign-errback-after-callback", PUB,
      "                d.addErrback(self._connection_problem, writer)\n"
      "                d.addCallback(self._got_write_answer, writer, started)\n",
      "                d.addCallback(self._got_write_answer, writer, started)\n"
      "                d.addErrback(self._connection_problem, writer)\n", None),
    M("benign-discard-through-local", PUB,
      "        self.writers.discard(writer.shnum, writer)\n",
      "        w = writer\n        self.writers.discard(w.shnum, w)\n", None),
    M("benign-failure-branches-reordered", PUB, _FAILURE_OLD, _FAILURE_BENIGN, None),
    M("benign-answer-unpacked-by-index", PUB,
      "        wrote, read_data = answer\n", "        wrote = answer[0]\n        read_data = answer[1]\n", None),
    M("benign-state-compared-to-done", PUB,
      "        # If we make it to this point, we were successful in placing the\n        # file.\n        return self._done()",
      "        assert self._state == DONE_STATE\n        return self._done()", None),
    # ---- vanished anchor
    M("vanish-connection-problem", PUB,
      "    def _connection_problem(self, f, writer):", "    def _connection_problemX(self, f, writer):", "ANALYSIS-ERROR"),
    # ---- C47.9 (surprise detection adopted from C12; added after seeded change C47-B)
    M("surprise-flag-last-share-wins", "src/allmydata/mutable/publish.py",
      "                surprised = True\n\n        if surprised:", "                surprised = (checkstring != self._checkstring)\n\n        if surprised:", "C47.9"),
]

SRVF = "src/allmydata/storage/server.py"

_SRV_WRITE_OLD = '''        if testv_is_good:
            # now apply the write vectors
            remaining_shares = self._evaluate_write_vectors(
                bucketdir,
                secrets,
                test_and_write_vectors,
                shares,
            )
            if renew_leases:
                lease_info = self._make_lease_info(renew_secret, cancel_secret)
                self._add_or_renew_leases(remaining_shares.values(), lease_info)
'''
_SRV_WRITE_EARLY_RETURN = '''        if not testv_is_good:
            self.add_latency("writev", self._clock.seconds() - start)
            return (False, read_data)
        remaining_shares = self._evaluate_write_vectors(
            bucketdir,
            secrets,
            test_and_write_vectors,
            shares,
        )
        if renew_leases:
            lease_info = self._make_lease_info(renew_secret, cancel_secret)
            self._add_or_renew_leases(remaining_shares.values(), lease_info)
'''

_PUSH_GATE = "        if num_shnums < self.required_shares or self.surprised:\n            return self._failure()\n"

MUTANTS += [
    # ---- C47.10 (gap review: `return self._failure()` -> `return None` survived the sweep)
    M("push-gives-up-silently", PUB, _PUSH_GATE,
      "        if num_shnums < self.required_shares or self.surprised:\n            return None\n", "C47.10"),
    M("push-too-few-writers-only-logged", PUB, _PUSH_GATE,
      "        if num_shnums < self.required_shares:\n            self.log(\"not enough writers left\")\n            return\n"
      "        if self.surprised:\n            return self._failure()\n", "C47.10"),
    M("benign-push-failure-then-bare-return", PUB, _PUSH_GATE,
      "        if num_shnums < self.required_shares or self.surprised:\n            self._failure()\n            return\n", None),
    M("benign-push-two-separate-checks", PUB, _PUSH_GATE,
      "        if self.surprised:\n            return self._failure()\n"
      "        if self.required_shares > num_shnums:\n            return self._failure()\n", None),
    # ---- C47.11 (gap review: add(shnum, writer) -> add(writer, shnum) survived)
    M("writers-keyed-by-writer", PUB,
      "            self.writers.add(shnum, writer)\n            writer.server = server\n"
      "            known_shares = self._servermap.get_known_shares()\n            if (server, shnum) in known_shares:",
      "            self.writers.add(writer, shnum)\n            writer.server = server\n"
      "            known_shares = self._servermap.get_known_shares()\n            if (server, shnum) in known_shares:", "C47.11"),
    M("writers-keyed-by-server", PUB,
      "            self.writers.add(shnum, writer)\n            writer.server = server\n"
      "            known_shares = self._servermap.get_known_shares()\n            assert (server, shnum) in known_shares",
      "            self.writers.add(server, writer)\n            writer.server = server\n"
      "            known_shares = self._servermap.get_known_shares()\n            assert (server, shnum) in known_shares", "C47.11"),
    M("proxy-share-number-from-wrong-parameter", LAY,
      "        self.shnum = shnum\n        self._storage_server = storage_server\n        self._storage_index = storage_index\n"
      "        self._secrets = secrets\n",
      "        self.shnum = seqnum\n        self._storage_server = storage_server\n        self._storage_index = storage_index\n"
      "        self._secrets = secrets\n", "C47.11"),
    M("benign-writer-filed-through-locals", PUB,
      "            self.writers.add(shnum, writer)\n            writer.server = server\n"
      "            known_shares = self._servermap.get_known_shares()\n            if (server, shnum) in known_shares:",
      "            w = writer\n            sn = shnum\n            self.writers.add(sn, w)\n            writer.server = server\n"
      "            known_shares = self._servermap.get_known_shares()\n            if (server, shnum) in known_shares:", None),
    # ---- C47.5 (gap review: `return self.done_deferred` -> `return None` survived)
    M("publish-returns-push-result", PUB,
      "        self._state = PUSHING_BLOCKS_STATE\n        self._push()\n\n        return self.done_deferred\n\n    def _get_some_writer",
      "        self._state = PUSHING_BLOCKS_STATE\n        return self._push()\n\n    def _get_some_writer", "C47.5"),
    M("benign-result-deferred-through-local", PUB,
      "        self._state = PUSHING_BLOCKS_STATE\n        self._push()\n\n        return self.done_deferred\n\n    def _get_some_writer",
      "        self._state = PUSHING_BLOCKS_STATE\n        result = self.done_deferred\n        self._push()\n        return result\n\n"
      "    def _get_some_writer", None),
    # ---- C47.12 (gap review: `if testv_is_good:` negated survived - the server acknowledges without storing)
    M("server-acks-without-writing", SRVF,
      "        if testv_is_good:\n            # now apply the write vectors",
      "        if not testv_is_good:\n            # now apply the write vectors", "C47.12"),
    M("server-dry-run-for-lease-renewal", SRVF,
      "        if testv_is_good:\n            # now apply the write vectors",
      "        if testv_is_good and renew_leases:\n            # now apply the write vectors", "C47.12"),
    M("benign-server-refusal-returns-early", SRVF, _SRV_WRITE_OLD, _SRV_WRITE_EARLY_RETURN, None),
    M("benign-server-verdict-through-bool", SRVF,
      "        if testv_is_good:\n            # now apply the write vectors",
      "        accepted = bool(testv_is_good)\n        if accepted:\n            # now apply the write vectors", None),
    # ---- C47.9: rules adopted from C12 in the gap review (test vectors, unbound locals, surprise set)
    M("sdmf-proxy-sends-empty-request", LAY,
      "        tw_vectors[self.shnum] = (self._testvs, datavs, None)\n        return self._storage_server.slot_testv_and_readv_and_writev(",
      "        return self._storage_server.slot_testv_and_readv_and_writev(", "C47.9"),
    M("answer-handler-unbound-local", PUB,
      "        surprised = False\n        for shnum in surprise_shares:", "        for shnum in surprise_shares:", "C47.9"),
    M("surprise-set-other-servers", PUB,
      "            shares.extend([x.shnum for x in writers if x.server == server])",
      "            shares.extend([x.shnum for x in writers if x.server != server])", "C47.9"),
]
