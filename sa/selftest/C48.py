from .runner import M

# test_time_format is not collectable offline (allmydata.test needs collections_extended), so the time_format
# variants are not caught by the 151 runnable tests; test_abbreviate (10 tests) runs: the two abbreviate variants it
# would catch are marked in their note.

TF = "src/allmydata/util/time_format.py"
AB = "src/allmydata/util/abbreviate.py"
CL = "src/allmydata/client.py"

SIZE_MATCH = 'm = re.match(r"^(\\d+)\\s*([KMGTPE]?[I]?[B]?)$", s.upper())'
DUR_PATTERN = 'pattern = rf"^\\s*(\\d+)\\s*({unit_pattern})\\s*$"'
DUR_MATCH = "    match = re.match(pattern, s, re.IGNORECASE)"
SIZE_DEF = "def parse_abbreviated_size(s):\n"
DATE_GUARD = '    if not re.fullmatch(r"\\d{4}-\\d{2}-\\d{2}", s):'
ISO_MATCH = "    m = _conversion_re.match(isotime)"
ISO_PAT = (r'r"(?P<year>\d{4})-(?P<month>\d{2})-(?P<day>\d{2})[T_ ](?P<hour>\d{2}):(?P<minute>\d{2}):(?P<second>\d{2})'
           r'(?P<subsecond>\.\d+)?"')
ISO_DEF = "def iso_utc_time_to_seconds(isotime, _conversion_re=re.compile(" + ISO_PAT + ")):"

MUTANTS = [
    # ---- C48.1 parse_duration grammar / table
    M("dur-end-anchor-dropped", TF,
      DUR_PATTERN, 'pattern = rf"^\\s*(\\d+)\\s*({unit_pattern})\\s*"', "C48.1"),
    M("dur-signed-number", TF,
      DUR_PATTERN, 'pattern = rf"^\\s*(-?\\d+)\\s*({unit_pattern})\\s*$"', "C48.1"),
    M("dur-leading-junk", TF,
      DUR_PATTERN, 'pattern = rf"^.*?(\\d+)\\s*({unit_pattern})\\s*$"', "C48.1"),
    M("dur-unit-without-multiplier", TF,
      '    DAYS1 = "days"\n', '    DAYS1 = "days"\n    WEEKS0 = "week"\n    WEEKS1 = "weeks"\n', "C48.1"),
    M("dur-month-30", TF, "    MONTH = 31*DAY\n", "    MONTH = 30*DAY\n", "C48.1"),
    M("dur-result-not-multiplied", TF,
      "    return number * time_map[unit]", "    return number + time_map[unit]", "C48.1"),
    # ---- C48.2 documented durations
    M("dur-doc-spelling-mo-dropped", TF,
      '    MONTHS0 = "mo"\n', "", "C48.2",
      edits=[(TF, "        ParseDurationUnitFormat.MONTHS0: MONTH,\n", "")]),
    M("dur-doc-space-required", TF,
      DUR_PATTERN, 'pattern = rf"^\\s*(\\d+)\\s+({unit_pattern})\\s*$"', "C48.2"),
    # ---- C48.3 parse_abbreviated_size grammar / table
    M("size-signed-number", AB,
      SIZE_MATCH, 'm = re.match(r"^(-?\\d+)\\s*([KMGTPE]?[I]?[B]?)$", s.upper())', "C48.3"),
    M("size-suffix-without-multiplier", AB,
      SIZE_MATCH, 'm = re.match(r"^(\\d+)\\s*([KMGTPEZ]?[I]?[B]?)$", s.upper())', "C48.3"),
    M("size-bare-i-binary", AB, '                  "I":  1,\n', '                  "I":  1024,\n', "C48.3"),
    M("size-strip-i-too", AB,
      '    if suffix.endswith("B"):\n        suffix = suffix[:-1]\n',
      '    if suffix.endswith("B"):\n        suffix = suffix[:-1]\n    if suffix.endswith("I") and len(suffix) == 1:\n        suffix = "KI"\n',
      "C48.3"),
    M("size-trailing-junk", AB,
      SIZE_MATCH, 'm = re.match(r"^(\\d+)\\s*([KMGTPE]?[I]?[B]?)", s.upper())', "C48.3",
      note="also caught by test_abbreviate"),
    # ---- C48.4 documented sizes
    M("size-doc-number-too-long", AB,
      SIZE_MATCH, 'm = re.match(r"^(\\d{1,8})\\s*([KMGTPE]?[I]?[B]?)$", s.upper())', "C48.4"),
    M("size-doc-ib-dropped", AB,
      SIZE_MATCH, 'm = re.match(r"^(\\d+)\\s*([KMGTPE]?[B]?)$", s.upper())', "C48.4",
      note="also caught by test_abbreviate"),
    # ---- C48.5 dates
    M("date-month-width", TF, "(?P<month>\\d{2})", "(?P<month>\\d{1,2})", "C48.5"),
    M("date-fields-swapped", TF,
      "calendar.timegm( (year, month, day, hour, minute, second, 0, 1, 0) )",
      "calendar.timegm( (year, day, month, hour, minute, second, 0, 1, 0) )", "C48.5"),
    M("date-not-midnight", TF,
      '    return int(iso_utc_time_to_seconds(s + "T00:00:00"))', '    return int(iso_utc_time_to_seconds(s + "T12:00:00"))', "C48.5"),
    # ---- C48.6 date grammar consumes the whole value (the missing end anchor is a finding of the unchanged tree;
    # a missing start anchor is reported on a different construct)
    M("date-search-unanchored", TF, ISO_MATCH, "    m = _conversion_re.search(isotime)", "C48.6",
      edits=[(TF, DATE_GUARD, "    if not s:")],
      note="with parse_date's fixed-shape guard intact the same edit is harmless: benign-date-iso-search-guarded"),
    # ---- C48.7 printer within the parser's grammar (a new output shape gets a new construct key)
    M("printer-new-shape", AB,
      '    return r(s/(U*U*U*U*U*U), "E")', '    if s >= U*U*U*U*U*U*U:\n        return "%.3g ZB" % (s/(U*U*U*U*U*U*U))\n    return r(s/(U*U*U*U*U*U), "E")',
      "C48.7"),
    # ---- C48.8 plumbing
    M("cutoff-parsed-as-duration", CL,
      "            cutoff_date = parse_date(cutoff_date)", "            cutoff_date = parse_duration(cutoff_date)", "C48.8"),
    M("override-from-wrong-key", CL,
      'o_l_d = self.config.get_config("storage", "expire.override_lease_duration", None)',
      'o_l_d = self.config.get_config("storage", "expire.cutoff_date", None)', "C48.8"),
    M("kwargs-crossed", CL,
      "            expiration_override_lease_duration=o_l_d,\n            expiration_cutoff_date=cutoff_date,",
      "            expiration_override_lease_duration=cutoff_date,\n            expiration_cutoff_date=o_l_d,", "C48.8"),
    M("reserved-not-parsed", CL,
      "            reserved = parse_abbreviated_size(data)", "            reserved = int(data) if data else None", "C48.8"),
    # ---- behaviour-preserving
    M("benign-dur-fullmatch-casefold", TF,
      "    match = re.match(pattern, s, re.IGNORECASE)", "    match = re.fullmatch(pattern, s, flags=re.IGNORECASE)", None,
      edits=[(TF, "    unit = match.group(2).lower()", "    unit = match.group(2).casefold()")]),
    M("benign-dur-rename-and-inline", TF,
      "    number = int(match.group(1))  # Extract the numeric value\n    unit = match.group(2).lower()  # Extract the unit & normalize the unit to lowercase\n\n    return number * time_map[unit]",
      "    count = int(match.group(1))\n    seconds_per_unit = time_map[match.group(2).lower()]\n    return seconds_per_unit * count", None),
    M("benign-size-table-hoisted", AB,
      '    multiplier = {"":   1,', '    table = {"":   1,', None,
      edits=[(AB, '                  "EI": 1024 * 1024 * 1024 * 1024 * 1024 * 1024,\n                  }[suffix]\n',
              '                  "EI": 1024 * 1024 * 1024 * 1024 * 1024 * 1024,\n                  }\n    multiplier = table[suffix]\n')]),
    M("benign-size-strip-form", AB,
      '    if suffix.endswith("B"):\n        suffix = suffix[:-1]\n', '    if suffix[-1:] == "B":\n        suffix = suffix[:len(suffix) - 1]\n', None),
    M("benign-size-powers", AB,
      '                  "KI": 1024,\n                  "MI": 1024 * 1024,', '                  "KI": 2 ** 10,\n                  "MI": 1 << 20,', None),
    M("benign-client-temp", CL,
      "            cutoff_date = parse_date(cutoff_date)", "            cutoff_text = cutoff_date\n            cutoff_date = parse_date(cutoff_text)", None),
    # the small repairs of the findings must satisfy the rules
    M("benign-size-plain-letters", AB,
      SIZE_MATCH, 'm = re.match(r"^(\\d+)\\s*([KMGTPE]?I?B?)$", s.upper())', None),
    M("benign-date-end-anchored", TF, "(?P<subsecond>\\.\\d+)?\")):", "(?P<subsecond>\\.\\d+)?$\")):", None),
    # ---- whole-value grammar through a precompiled pattern and any of match/search/fullmatch (seeded C48-B)
    M("size-precompiled-search-unanchored", AB,
      SIZE_DEF, '_SIZE_RE = re.compile(r"(\\d+)\\s*([KMGTPE]?I?B?)$")\n\n' + SIZE_DEF, "C48.3",
      edits=[(AB, SIZE_MATCH, "m = _SIZE_RE.search(s.upper())")],
      note="seeded C48-B: '1.5G' is read as 5 GB, 'x12K' as 12000"),
    M("size-inline-search-unanchored", AB,
      SIZE_MATCH, 'm = re.search(r"(\\d+)\\s*([KMGTPE]?[I]?[B]?)$", s.upper())', "C48.3"),
    M("size-local-compiled-end-dropped", AB,
      SIZE_MATCH, 'size_re = re.compile(r"(\\d+)\\s*([KMGTPE]?[I]?[B]?)")\n    m = size_re.match(s.upper())', "C48.3",
      note="also caught by test_abbreviate"),
    M("size-multiline-flag", AB,
      SIZE_DEF, '_SIZE_RE = re.compile(r"^(\\d+)\\s*([KMGTPE]?[I]?[B]?)$", flags=re.MULTILINE)\n\n' + SIZE_DEF, "C48.3",
      edits=[(AB, SIZE_MATCH, "m = _SIZE_RE.match(s.upper())")],
      note="under MULTILINE '$' also ends at a newline: the continuation-line value '10G\\nx' is read as 10 GB"),
    M("dur-precompiled-search-unanchored", TF,
      DUR_PATTERN, 'pattern = re.compile(rf"(\\d+)\\s*({unit_pattern})\\s*$", re.IGNORECASE)', "C48.1",
      edits=[(TF, DUR_MATCH, "    match = pattern.search(s)")]),
    M("dur-inline-search-unanchored", TF,
      DUR_PATTERN, 'pattern = rf"(\\d+)\\s*({unit_pattern})\\s*$"', "C48.1",
      edits=[(TF, DUR_MATCH, "    match = re.search(pattern, s, re.IGNORECASE)")]),
    M("dur-multiline-search", TF,
      DUR_MATCH, "    match = re.search(pattern, s, re.IGNORECASE | re.MULTILINE)", "C48.1"),
    M("date-guard-precompiled-search", TF,
      "def parse_date(s):\n", '_DAY_RE = re.compile(r"\\d{4}-\\d{2}-\\d{2}$")\n\ndef parse_date(s):\n', "C48.6",
      edits=[(TF, DATE_GUARD, "    if not _DAY_RE.search(s):")],
      note="'2009-03-18T01:02:03 2009-03-18' passes the guard and is read as 01:02:03"),
    M("date-guard-end-dropped", TF, DATE_GUARD, '    if not re.match(r"\\d{4}-\\d{2}-\\d{2}", s):', "C48.6"),
    M("date-guard-not-gating", TF,
      DATE_GUARD + '\n        raise ValueError(s, "not a YYYY-MM-DD date")\n',
      DATE_GUARD + '\n        log_bad_date = True\n', "C48.6"),
    M("date-guard-loose-shape", TF, DATE_GUARD, '    if not re.fullmatch(r"\\d{4}-\\d{2}-\\d{2}.*", s):', "C48.6"),
    M("benign-size-precompiled-module", AB,
      SIZE_DEF, '_SIZE_RE = re.compile(r"^(\\d+)\\s*([KMGTPE]?[I]?[B]?)$")\n\n' + SIZE_DEF, None,
      edits=[(AB, SIZE_MATCH, "m = _SIZE_RE.match(s.upper())")]),
    M("benign-size-compiled-fullmatch", AB,
      SIZE_MATCH, 'size_re = re.compile(r"(\\d+)\\s*([KMGTPE]?[I]?[B]?)")\n    m = size_re.fullmatch(s.upper())', None),
    M("benign-size-search-string-anchors", AB,
      SIZE_MATCH, 'm = re.search(r"\\A(\\d+)\\s*([KMGTPE]?[I]?[B]?)\\Z", s.upper())', None),
    M("benign-dur-precompiled-kwflags", TF,
      DUR_MATCH, "    duration_re = re.compile(pattern, flags=re.IGNORECASE)\n    match = duration_re.match(s)", None),
    M("benign-dur-search-anchored", TF, DUR_MATCH, "    match = re.search(pattern, s, re.I)", None),
    M("benign-date-guard-precompiled", TF,
      "def parse_date(s):\n", '_DAY_RE = re.compile(r"\\d{4}-\\d{2}-\\d{2}")\n\ndef parse_date(s):\n', None,
      edits=[(TF, DATE_GUARD, "    if _DAY_RE.fullmatch(s) is None:")]),
    M("benign-date-iso-search-guarded", TF, ISO_MATCH, "    m = _conversion_re.search(isotime)", None,
      note="parse_date's guard admits only YYYY-MM-DD, so the unanchored search starts at the first character anyway"),
    M("benign-date-iso-module-constant", TF,
      ISO_DEF, "_ISO_RE = re.compile(" + ISO_PAT + ")\n\ndef iso_utc_time_to_seconds(isotime):", None,
      edits=[(TF, ISO_MATCH, "    m = _ISO_RE.match(isotime)")]),
    M("benign-date-iso-match-is-none", TF,
      ISO_MATCH + "\n    if not m:", ISO_MATCH + "\n    if m is None:", None),
    # ---- vanished anchor
    M("vanish-parse-duration", TF, "def parse_duration(s):", "def parse_duration_string(s):", "ANALYSIS-ERROR"),
]
