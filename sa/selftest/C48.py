from .runner import M

# test_time_format is not collectable offline (allmydata.test needs collections_extended), so the time_format
# variants are not caught by the 151 runnable tests; test_abbreviate (10 tests) runs: the two abbreviate variants it
# would catch are marked in their note.

TF = "src/allmydata/util/time_format.py"
AB = "src/allmydata/util/abbreviate.py"
CL = "src/allmydata/client.py"
ND = "src/allmydata/node.py"

SIZE_MATCH = 'm = re.match(r"^(\\d+)\\s*([KMGTPE]?[I]?[B]?)$", s.upper())'
DUR_PATTERN = 'pattern = rf"^\\s*(\\d+)\\s*({unit_pattern})\\s*$"'
DUR_MATCH = "    match = re.match(pattern, s, re.IGNORECASE)"
SIZE_DEF = "def parse_abbreviated_size(s):\n"
DATE_GUARD = '    if not re.fullmatch(r"\\d{4}-\\d{2}-\\d{2}", s):'
ISO_MATCH = "    m = _conversion_re.match(isotime)"
ISO_PAT = (r'r"(?P<year>\d{4})-(?P<month>\d{2})-(?P<day>\d{2})[T_ ](?P<hour>\d{2}):(?P<minute>\d{2}):(?P<second>\d{2})'
           r'(?P<subsecond>\.\d+)?"')
ISO_FIELDS = "    hour, minute, second = int(m.group('hour')), int(m.group('minute')), int(m.group('second'))\n"
GC_EXCEPT = "        except (configparser.NoOptionError, configparser.NoSectionError):\n            if default is _None:"
GC_TAIL = ("            if default is _None:\n                raise MissingConfigEntry(\n"
           "                    \"{} is missing the [{}]{} entry\".format(\n"
           "                        quote_output(self._config_fname),\n                        section,\n"
           "                        option,\n                    )\n                )\n            return default\n")
ITEMS_EXCEPT = "            return self.config.items(section)\n        except configparser.NoSectionError:"
ISO_DEF = "def iso_utc_time_to_seconds(isotime, _conversion_re=re.compile(" + ISO_PAT + ")):"

MUTANTS = [
    # ---- C48.1 parse_duration grammar / table
    M("dur-end-anchor-dropped", TF,
      DUR_PATTERN, 'pattern = rf"^\\s*(\\d+)\\s*({unit_pattern})\\s*"', "C48.1"),
    M("dur-signed-number", TF,
      DUR_PATTERN, 'pattern = rf"^\\s*(-?\\d+)\\s*({unit_pattern})\\s*$"', "C48.1"),
    M("dur-leading-junk", TF,
      DUR_PATTERN, 'pattern = rf"^.*?(\\d+)\\s*({unit_pattern})\\s*$"', "C48.1"),
    M("dur-unit-without-multiplier", TF,
      '    DAYS1 = "days"\n', '    DAYS1 = "days"\n    WEEKS0 = "week"\n    WEEKS1 = "weeks"\n', "C48.1"),
    M("dur-month-30", TF, "    MONTH = 31*DAY\n", "    MONTH = 30*DAY\n", "C48.1"),
    M("dur-result-not-multiplied", TF,
      "    return number * time_map[unit]", "    return number + time_map[unit]", "C48.1"),
    # ---- C48.2 documented durations
    M("dur-doc-spelling-mo-dropped", TF,
      '    MONTHS0 = "mo"\n', "", "C48.2",
      edits=[(TF, "        ParseDurationUnitFormat.MONTHS0: MONTH,\n", "")]),
    M("dur-doc-space-required", TF,
      DUR_PATTERN, 'pattern = rf"^\\s*(\\d+)\\s+({unit_pattern})\\s*$"', "C48.2"),
    # ---- C48.3 parse_abbreviated_size grammar / table
    M("size-signed-number", AB,
      SIZE_MATCH, 'm = re.match(r"^(-?\\d+)\\s*([KMGTPE]?[I]?[B]?)$", s.upper())', "C48.3"),
    M("size-suffix-without-multiplier", AB,
      SIZE_MATCH, 'm = re.match(r"^(\\d+)\\s*([KMGTPEZ]?[I]?[B]?)$", s.upper())', "C48.3"),
    M("size-bare-i-binary", AB, '                  "I":  1,\n', '                  "I":  1024,\n', "C48.3"),
    M("size-strip-i-too", AB,
      '    if suffix.endswith("B"):\n        suffix = suffix[:-1]\n',
      '    if suffix.endswith("B"):\n        suffix = suffix[:-1]\n    if suffix.endswith("I") and len(suffix) == 1:\n        suffix = "KI"\n',
      "C48.3"),
    M("size-trailing-junk", AB,
      SIZE_MATCH, 'm = re.match(r"^(\\d+)\\s*([KMGTPE]?[I]?[B]?)", s.upper())', "C48.3",
      note="also caught by test_abbreviate"),
    # ---- C48.4 documented sizes
    M("size-doc-number-too-long", AB,
      SIZE_MATCH, 'm = re.match(r"^(\\d{1,8})\\s*([KMGTPE]?[I]?[B]?)$", s.upper())', "C48.4"),
    M("size-doc-ib-dropped", AB,
      SIZE_MATCH, 'm = re.match(r"^(\\d+)\\s*([KMGTPE]?[B]?)$", s.upper())', "C48.4",
      note="also caught by test_abbreviate"),
    # ---- C48.5 dates
    M("date-month-width", TF, "(?P<month>\\d{2})", "(?P<month>\\d{1,2})", "C48.5"),
    M("date-fields-swapped", TF,
      "calendar.timegm( (year, month, day, hour, minute, second, 0, 1, 0) )",
      "calendar.timegm( (year, day, month, hour, minute, second, 0, 1, 0) )", "C48.5"),
    M("date-not-midnight", TF,
      '    return int(iso_utc_time_to_seconds(s + "T00:00:00"))', '    return int(iso_utc_time_to_seconds(s + "T12:00:00"))', "C48.5"),
    # ---- C48.6 date grammar consumes the whole value (the missing end anchor is a finding of the unchanged tree;
    # a missing start anchor is reported on a different construct)
    M("date-search-unanchored", TF, ISO_MATCH, "    m = _conversion_re.search(isotime)", "C48.6",
      edits=[(TF, DATE_GUARD, "    if not s:")],
      note="with parse_date's fixed-shape guard intact the same edit is harmless: benign-date-iso-search-guarded"),
    # ---- C48.7 printer within the parser's grammar (a new output shape gets a new construct key)
    M("printer-new-shape", AB,
      '    return r(s/(U*U*U*U*U*U), "E")', '    if s >= U*U*U*U*U*U*U:\n        return "%.3g ZB" % (s/(U*U*U*U*U*U*U))\n    return r(s/(U*U*U*U*U*U), "E")',
      "C48.7"),
    # ---- C48.8 plumbing
    M("cutoff-parsed-as-duration", CL,
      "            cutoff_date = parse_date(cutoff_date)", "            cutoff_date = parse_duration(cutoff_date)", "C48.8"),
    M("override-from-wrong-key", CL,
      'o_l_d = self.config.get_config("storage", "expire.override_lease_duration", None)',
      'o_l_d = self.config.get_config("storage", "expire.cutoff_date", None)', "C48.8"),
    M("kwargs-crossed", CL,
      "            expiration_override_lease_duration=o_l_d,\n            expiration_cutoff_date=cutoff_date,",
      "            expiration_override_lease_duration=cutoff_date,\n            expiration_cutoff_date=o_l_d,", "C48.8"),
    M("reserved-not-parsed", CL,
      "            reserved = parse_abbreviated_size(data)", "            reserved = int(data) if data else None", "C48.8"),
    # ---- behaviour-preserving
    M("benign-dur-fullmatch-casefold", TF,
      "    match = re.match(pattern, s, re.IGNORECASE)", "    match = re.fullmatch(pattern, s, flags=re.IGNORECASE)", None,
      edits=[(TF, "    unit = match.group(2).lower()", "    unit = match.group(2).casefold()")]),
    M("benign-dur-rename-and-inline", TF,
      "    number = int(match.group(1))  # Extract the numeric value\n    unit = match.group(2).lower()  # Extract the unit & normalize the unit to lowercase\n\n    return number * time_map[unit]",
      "    count = int(match.group(1))\n    seconds_per_unit = time_map[match.group(2).lower()]\n    return seconds_per_unit * count", None),
    M("benign-size-table-hoisted", AB,
      '    multiplier = {"":   1,', '    table = {"":   1,', None,
      edits=[(AB, '                  "EI": 1024 * 1024 * 1024 * 1024 * 1024 * 1024,\n                  }[suffix]\n',
              '                  "EI": 1024 * 1024 * 1024 * 1024 * 1024 * 1024,\n                  }\n    multiplier = table[suffix]\n')]),
    M("benign-size-strip-form", AB,
      '    if suffix.endswith("B"):\n        suffix = suffix[:-1]\n', '    if suffix[-1:] == "B":\n        suffix = suffix[:len(suffix) - 1]\n', None),
    M("benign-size-powers", AB,
      '                  "KI": 1024,\n                  "MI": 1024 * 1024,', '                  "KI": 2 ** 10,\n                  "MI": 1 << 20,', None),
    M("benign-client-temp", CL,
      "            cutoff_date = parse_date(cutoff_date)", "            cutoff_text = cutoff_date\n            cutoff_date = parse_date(cutoff_text)", None),
    # the small repairs of the findings must satisfy the rules
    M("benign-size-plain-letters", AB,
      SIZE_MATCH, 'm = re.match(r"^(\\d+)\\s*([KMGTPE]?I?B?)$", s.upper())', None),
    M("benign-date-end-anchored", TF, "(?P<subsecond>\\.\\d+)?\")):", "(?P<subsecond>\\.\\d+)?$\")):", None),
    # ---- whole-value grammar through a precompiled pattern and any of match/search/fullmatch (seeded C48-B)
    M("size-precompiled-search-unanchored", AB,
      SIZE_DEF, '_SIZE_RE = re.compile(r"(\\d+)\\s*([KMGTPE]?I?B?)$")\n\n' + SIZE_DEF, "C48.3",
      edits=[(AB, SIZE_MATCH, "m = _SIZE_RE.search(s.upper())")],
      note="seeded C48-B: '1.5G' is read as 5 GB, 'x12K' as 12000"),
    M("size-inline-search-unanchored", AB,
      SIZE_MATCH, 'm = re.search(r"(\\d+)\\s*([KMGTPE]?[I]?[B]?)$", s.upper())', "C48.3"),
    M("size-local-compiled-end-dropped", AB,
      SIZE_MATCH, 'size_re = re.compile(r"(\\d+)\\s*([KMGTPE]?[I]?[B]?)")\n    m = size_re.match(s.upper())', "C48.3",
      note="also caught by test_abbreviate"),
    M("size-multiline-flag", AB,
      SIZE_DEF, '_SIZE_RE = re.compile(r"^(\\d+)\\s*([KMGTPE]?[I]?[B]?)$", flags=re.MULTILINE)\n\n' + SIZE_DEF, "C48.3",
      edits=[(AB, SIZE_MATCH, "m = _SIZE_RE.match(s.upper())")],
      note="under MULTILINE '$' also ends at a newline: the continuation-line value '10G\\nx' is read as 10 GB"),
    M("dur-precompiled-search-unanchored", TF,
      DUR_PATTERN, 'pattern = re.compile(rf"(\\d+)\\s*({unit_pattern})\\s*$", re.IGNORECASE)', "C48.1",
      edits=[(TF, DUR_MATCH, "    match = pattern.search(s)")]),
    M("dur-inline-search-unanchored", TF,
      DUR_PATTERN, 'pattern = rf"(\\d+)\\s*({unit_pattern})\\s*$"', "C48.1",
      edits=[(TF, DUR_MATCH, "    match = re.search(pattern, s, re.IGNORECASE)")]),
    M("dur-multiline-search", TF,
      DUR_MATCH, "    match = re.search(pattern, s, re.IGNORECASE | re.MULTILINE)", "C48.1"),
    M("date-guard-precompiled-search", TF,
      "def parse_date(s):\n", '_DAY_RE = re.compile(r"\\d{4}-\\d{2}-\\d{2}$")\n\ndef parse_date(s):\n', "C48.6",
      edits=[(TF, DATE_GUARD, "    if not _DAY_RE.search(s):")],
      note="'2009-03-18T01:02:03 2009-03-18' passes the guard and is read as 01:02:03"),
    M("date-guard-end-dropped", TF, DATE_GUARD, '    if not re.match(r"\\d{4}-\\d{2}-\\d{2}", s):', "C48.6"),
    M("date-guard-not-gating", TF,
      DATE_GUARD + '\n        raise ValueError(s, "not a YYYY-MM-DD date")\n',
      DATE_GUARD + '\n        log_bad_date = True\n', "C48.6"),
    M("date-guard-loose-shape", TF, DATE_GUARD, '    if not re.fullmatch(r"\\d{4}-\\d{2}-\\d{2}.*", s):', "C48.6"),
    M("benign-size-precompiled-module", AB,
      SIZE_DEF, '_SIZE_RE = re.compile(r"^(\\d+)\\s*([KMGTPE]?[I]?[B]?)$")\n\n' + SIZE_DEF, None,
      edits=[(AB, SIZE_MATCH, "m = _SIZE_RE.match(s.upper())")]),
    M("benign-size-compiled-fullmatch", AB,
      SIZE_MATCH, 'size_re = re.compile(r"(\\d+)\\s*([KMGTPE]?[I]?[B]?)")\n    m = size_re.fullmatch(s.upper())', None),
    M("benign-size-search-string-anchors", AB,
      SIZE_MATCH, 'm = re.search(r"\\A(\\d+)\\s*([KMGTPE]?[I]?[B]?)\\Z", s.upper())', None),
    M("benign-dur-precompiled-kwflags", TF,
      DUR_MATCH, "    duration_re = re.compile(pattern, flags=re.IGNORECASE)\n    match = duration_re.match(s)", None),
    M("benign-dur-search-anchored", TF, DUR_MATCH, "    match = re.search(pattern, s, re.I)", None),
    M("benign-date-guard-precompiled", TF,
      "def parse_date(s):\n", '_DAY_RE = re.compile(r"\\d{4}-\\d{2}-\\d{2}")\n\ndef parse_date(s):\n', None,
      edits=[(TF, DATE_GUARD, "    if _DAY_RE.fullmatch(s) is None:")]),
    M("benign-date-iso-search-guarded", TF, ISO_MATCH, "    m = _conversion_re.search(isotime)", None,
      note="parse_date's guard admits only YYYY-MM-DD, so the unanchored search starts at the first character anyway"),
    M("benign-date-iso-module-constant", TF,
      ISO_DEF, "_ISO_RE = re.compile(" + ISO_PAT + ")\n\ndef iso_utc_time_to_seconds(isotime):", None,
      edits=[(TF, ISO_MATCH, "    m = _ISO_RE.match(isotime)")]),
    M("benign-date-iso-match-is-none", TF,
      ISO_MATCH + "\n    if not m:", ISO_MATCH + "\n    if m is None:", None),
    # ---- gaps found by the mutation sweep: accept/reject decision, None only for the empty value
    M("dur-match-test-inverted", TF,
      "    if not match:\n        # Generate dynamic error message", "    if match:\n        # Generate dynamic error message", "C48.1",
      note="every well-formed duration is rejected, a malformed one dies in None.group()"),
    M("dur-malformed-ignored", TF,
      "        raise ValueError(f\"No valid unit in '{s}'. Expected one of: ({valid_units})\")",
      "        return None", "C48.1",
      note="'2 fortnights' is read as 'no override' instead of being rejected"),
    M("size-match-test-inverted", AB,
      '    if not m:\n        raise ValueError("unparseable value %s" % s)', '    if m:\n        raise ValueError("unparseable value %s" % s)',
      "C48.3", note="also caught by test_abbreviate"),
    M("size-unparseable-means-none", AB,
      '        raise ValueError("unparseable value %s" % s)', "        return None", "C48.3",
      note="'10 gigs' is read as nothing reserved; also caught by test_abbreviate"),
    M("size-empty-test-inverted", AB,
      '    if s is None or s == "":', '    if s is None or s != "":', "C48.3",
      note="every non-empty reserved_space is read as nothing reserved; also caught by test_abbreviate"),
    M("size-empty-test-negated", AB,
      '    if s is None or s == "":', '    if not (s is None or s == ""):', "C48.3", note="also caught by test_abbreviate"),
    M("size-result-not-returned", AB,
      "    return int(number) * multiplier", "    result = int(number) * multiplier", "C48.3",
      note="also caught by test_abbreviate"),
    M("benign-dur-accept-branch", TF,
      "    if not match:\n        # Generate dynamic error message", "    if match is None:\n        # Generate dynamic error message", None),
    M("benign-size-empty-falsy", AB, '    if s is None or s == "":', "    if not s:", None),
    M("benign-size-empty-membership", AB, '    if s is None or s == "":', '    if s in (None, ""):', None),
    M("benign-size-accept-branch", AB,
      '    if not m:\n        raise ValueError("unparseable value %s" % s)\n', '    if m is None:\n        raise ValueError("unparseable value %s" % s)\n', None),
    # ---- a date without a fraction is exactly the timegm value
    M("date-fraction-default-nonzero", TF, "        subsecfloat = 0\n", "        subsecfloat = 1\n", "C48.5",
      note="every cutoff date is read as 00:00:01"),
    M("benign-date-fraction-conditional-expr", TF,
      "    if subsecstr:\n        subsecfloat = float(subsecstr)\n    else:\n        subsecfloat = 0\n",
      "    subsecfloat = float(subsecstr) if subsecstr else 0.0\n", None),
    # ---- client.py, per path
    M("reserved-default-test-inverted", CL,
      "        if reserved is None:\n            reserved = 0", "        if reserved is not None:\n            reserved = 0", "C48.8",
      note="every configured reserved_space becomes 0"),
    M("reserved-unparseable-swallowed", CL,
      "                    % data)\n            raise\n", "                    % data)\n            reserved = None\n", "C48.8",
      note="an unparseable reserved_space is logged and read as nothing reserved"),
    M("override-guard-inverted", CL,
      "        if o_l_d is not None:\n            o_l_d = parse_duration(o_l_d)", "        if o_l_d is None:\n            o_l_d = parse_duration(o_l_d)",
      "C48.8"),
    M("reserved-absent-nonzero", CL,
      "        if reserved is None:\n            reserved = 0", "        if reserved is None:\n            reserved = 1", "C48.8"),
    M("benign-reserved-default-falsy", CL,
      "        if reserved is None:\n            reserved = 0", "        if not reserved:\n            reserved = 0", None),
    M("benign-override-guard-truthy", CL,
      "        if o_l_d is not None:\n            o_l_d = parse_duration(o_l_d)", "        if o_l_d:\n            o_l_d = parse_duration(o_l_d)", None,
      note="differs only for an empty override value, which the [storage] reader does not produce"),
    M("reserved-read-error-swallowed", CL,
      '        data = self.config.get_config("storage", "reserved_space", None)\n',
      '        try:\n            data = self.config.get_config("storage", "reserved_space", None)\n'
      '        except Exception:\n            data = None\n', "C48.8",
      note="the caller-side form of seeded C48-F: 'reserved_space = 10%' is read as nothing reserved"),
    M("cutoff-read-error-swallowed", CL,
      '            cutoff_date = self.config.get_config("storage", "expire.cutoff_date")\n            cutoff_date = parse_date(cutoff_date)\n',
      '            try:\n                cutoff_date = self.config.get_config("storage", "expire.cutoff_date")\n'
      '                cutoff_date = parse_date(cutoff_date)\n            except configparser.Error:\n                cutoff_date = None\n',
      "C48.8", edits=[(CL, "import weakref\n", "import weakref\nimport configparser\n")]),
    M("benign-reserved-missing-entry-handled", CL,
      '        data = self.config.get_config("storage", "reserved_space", None)\n',
      '        try:\n            data = self.config.get_config("storage", "reserved_space")\n'
      '        except MissingConfigEntry:\n            data = None\n', None,
      edits=[(CL, "from allmydata.node import _Config\n", "from allmydata.node import _Config, MissingConfigEntry\n")]),
    M("benign-reserved-reraise-as-config-error", CL,
      "                    % data)\n            raise\n", "                    % data)\n            raise ValueError(\"[storage]reserved_space\")\n", None),
    # ---- C48.9 what abbreviate_space prints means the size (all of these are also caught by test_abbreviate)
    M("printer-unit-letters-crossed", AB,
      '        return r(s/(U*U), "M")', '        return r(s/(U*U), "G")', "C48.9",
      edits=[(AB, '        return r(s/(U*U*U), "G")', '        return r(s/(U*U*U), "M")')]),
    M("printer-bytes-scaled", AB, '        return "%d B" % s', '        return "%d B" % (s/U)', "C48.9"),
    M("printer-binary-mode-si-unit", AB, '        isuffix = "iB"', '        isuffix = "B"', "C48.9"),
    M("printer-unknown-for-everything", AB, '    if s is None:\n        return "unknown"\n    if SI:', '    if s is not None:\n        return "unknown"\n    if SI:', "C48.9"),
    M("printer-bytes-not-returned", AB, '        return "%d B" % s', '        return None', "C48.9"),
    M("benign-printer-hoisted-count", AB,
      '        return r(s/U, "k")', '        kilo = s/U\n        return r(kilo, "k")', None),
    M("benign-printer-else-chain", AB,
      '    if s < U*U:\n        return r(s/U, "k")\n    if s < U*U*U:', '    if s < U*U:\n        return r(s/U, "k")\n    elif s < U*U*U:', None),
    # ---- C48.5 every calendar date is a legal cutoff date (seeded C48-E): a range check on the fields is evaluated with
    # the library's own tables on month ends and leap days
    M("date-day-bound-mdays", TF, ISO_FIELDS,
      ISO_FIELDS + "    if not (1 <= month <= 12 and 1 <= day <= calendar.mdays[month]):\n"
      "        raise ValueError(isotime, \"not a valid calendar date\")\n", "C48.5",
      note="seeded C48-E: calendar.mdays has 28 for February, so 2024-02-29 is rejected"),
    M("date-day-bound-fixed-year", TF, ISO_FIELDS,
      ISO_FIELDS + "    datetime.date(1970, month, day)  # raises ValueError for an impossible day\n", "C48.5",
      note="validates the day against a non-leap year: 29 February is rejected"),
    M("date-day-bound-february-28", TF, ISO_FIELDS,
      ISO_FIELDS + "    if month == 2 and day > 28 or day > 31:\n        raise ValueError(isotime, \"day out of range\")\n", "C48.5"),
    M("date-day-bound-leap-rule-no-century", TF, ISO_FIELDS,
      ISO_FIELDS + "    month_days = calendar.mdays[month] + (1 if month == 2 and year % 4 == 0 and year % 100 != 0 else 0)\n"
      "    if day > month_days:\n        raise ValueError(isotime, \"day out of range\")\n", "C48.5",
      note="hand-written leap rule without the 400-year exception: 2000-02-29 is rejected"),
    M("date-day-bound-30", TF, ISO_FIELDS,
      ISO_FIELDS + "    assert 1 <= day <= 30, isotime\n", "C48.5", note="the 31st of a month is rejected"),
    M("benign-date-day-bound-monthrange", TF, ISO_FIELDS,
      ISO_FIELDS + "    if not (1 <= month <= 12 and 1 <= day <= calendar.monthrange(year, month)[1]):\n"
      "        raise ValueError(isotime, \"not a valid calendar date\")\n", None),
    M("benign-date-day-bound-isleap", TF, ISO_FIELDS,
      ISO_FIELDS + "    month_days = calendar.mdays[month] + (1 if month == 2 and calendar.isleap(year) else 0)\n"
      "    if day < 1 or day > month_days:\n        raise ValueError(isotime, \"not a valid calendar date\")\n", None),
    M("benign-date-validated-by-datetime", TF, ISO_FIELDS,
      ISO_FIELDS + "    try:\n        datetime.date(year, month, day)\n    except ValueError:\n"
      "        raise ValueError(isotime, \"not a valid calendar date\")\n", None),
    M("benign-date-time-of-day-bound", TF, ISO_FIELDS,
      ISO_FIELDS + "    if hour > 23 or minute > 59 or second > 60:\n        raise ValueError(isotime, \"not a valid time of day\")\n", None),
    M("date-parse-date-day-bound-mdays", TF, '    return int(iso_utc_time_to_seconds(s + "T00:00:00"))',
      '    month, day = int(s[5:7]), int(s[8:10])\n    if not 1 <= day <= calendar.mdays[month]:\n'
      '        raise ValueError(s, "no such day")\n    return int(iso_utc_time_to_seconds(s + "T00:00:00"))', "C48.5",
      note="the same slip at the sibling site: parse_date itself checks the day against the leap-less table"),
    M("date-parse-date-year-window", TF, '    return int(iso_utc_time_to_seconds(s + "T00:00:00"))',
      '    if not 1970 <= int(s[:4]) <= 2037:\n        raise ValueError(s, "year out of range")\n'
      '    return int(iso_utc_time_to_seconds(s + "T00:00:00"))', "C48.5"),
    M("benign-date-parse-date-day-bound-monthrange", TF, '    return int(iso_utc_time_to_seconds(s + "T00:00:00"))',
      '    year, month, day = map(int, s.split("-"))\n    if not (1 <= month <= 12 and 1 <= day <= calendar.monthrange(year, month)[1]):\n'
      '        raise ValueError(s, "no such day")\n    return int(iso_utc_time_to_seconds(s + "T00:00:00"))', None),
    # ---- C48.10 the accessor gives the default only for the 'absent' exception classes (seeded C48-F)
    M("config-catches-error-base", ND, GC_EXCEPT,
      "        except configparser.Error:\n            if default is _None:", "C48.10",
      note="seeded C48-F: 'reserved_space = 10%' raises InterpolationSyntaxError, which is swallowed: reserved_space = 0"),
    M("config-catches-exception", ND, GC_EXCEPT,
      "        except Exception:\n            if default is _None:", "C48.10"),
    M("config-catches-interpolation-too", ND, GC_EXCEPT,
      "        except (configparser.NoOptionError, configparser.NoSectionError, configparser.InterpolationError):\n"
      "            if default is _None:", "C48.10"),
    M("config-catches-valueerror-of-getboolean", ND, GC_EXCEPT,
      "        except (configparser.NoOptionError, configparser.NoSectionError, ValueError):\n            if default is _None:",
      "C48.10", note="'enabled = maybe' is read as the default instead of being rejected"),
    M("config-error-tuple-constant", ND, "class MissingConfigEntry(Exception):\n",
      "_UNREADABLE = (configparser.NoOptionError, configparser.NoSectionError, configparser.InterpolationSyntaxError)\n\n\nclass MissingConfigEntry(Exception):\n",
      "C48.10", edits=[(ND, GC_EXCEPT, "        except _UNREADABLE:\n            if default is _None:")]),
    M("config-items-catches-error-base", ND, ITEMS_EXCEPT,
      "            return self.config.items(section)\n        except configparser.Error:", "C48.10",
      note="sibling accessor: a section with one malformed value is read as the default"),
    M("config-narrowing-inverted", ND, GC_EXCEPT,
      "        except configparser.Error as e:\n            if isinstance(e, (configparser.NoOptionError, configparser.NoSectionError)):\n"
      "                raise\n            if default is _None:", "C48.10"),
    M("benign-config-absent-tuple-constant", ND, "class MissingConfigEntry(Exception):\n",
      "_ABSENT = (configparser.NoOptionError, configparser.NoSectionError)\n\n\nclass MissingConfigEntry(Exception):\n", None,
      edits=[(ND, GC_EXCEPT, "        except _ABSENT:\n            if default is _None:")]),
    M("benign-config-narrowed-by-isinstance", ND, GC_EXCEPT,
      "        except configparser.Error as e:\n            if not isinstance(e, (configparser.NoOptionError, configparser.NoSectionError)):\n"
      "                raise\n            if default is _None:", None),
    M("benign-config-interpolation-reraised", ND, GC_EXCEPT,
      "        except configparser.InterpolationError as e:\n"
      "            raise ValueError(\"[{}]{}: {}\".format(section, option, e))\n" + GC_EXCEPT, None),
    M("benign-config-separate-handlers", ND, GC_EXCEPT + "\n" + GC_TAIL.split("\n", 1)[1],
      "        except configparser.NoSectionError:\n" + GC_TAIL + "        except configparser.NoOptionError:\n" + GC_TAIL, None),
    M("config-section-suppress-error-base", ND, "import configparser\n", "import configparser\nimport contextlib\n", "C48.10",
      edits=[(ND, "        try:\n            for k in self.config.options(section):\n                answer[k] = self.config.get(section, k)\n"
              "        except configparser.NoSectionError:\n            pass\n",
              "        with contextlib.suppress(configparser.Error):\n            for k in self.config.options(section):\n"
              "                answer[k] = self.config.get(section, k)\n")],
      note="a section with one malformed value is silently truncated"),
    M("benign-config-section-suppress-absent", ND, "import configparser\n", "import configparser\nimport contextlib\n", None,
      edits=[(ND, "        try:\n            for k in self.config.options(section):\n                answer[k] = self.config.get(section, k)\n"
              "        except configparser.NoSectionError:\n            pass\n",
              "        with contextlib.suppress(configparser.NoSectionError):\n            for k in self.config.options(section):\n"
              "                answer[k] = self.config.get(section, k)\n")]),
    M("vanish-get-config", ND, "    def get_config(self, section, option, default=_None, boolean=False):",
      "    def get_config_value(self, section, option, default=_None, boolean=False):", "ANALYSIS-ERROR"),
    # ---- vanished anchor
    M("vanish-parse-duration", TF, "def parse_duration(s):", "def parse_duration_string(s):", "ANALYSIS-ERROR"),
]
