from .runner import M

# test_time_format is not collectable offline (allmydata.test needs collections_extended), so the time_format
# variants are not caught by the 151 runnable tests; test_abbreviate (10 tests) runs: the two abbreviate variants it
# would catch are marked in their note.

TF = "src/allmydata/util/time_format.py"
AB = "src/allmydata/util/abbreviate.py"
CL = "src/allmydata/client.py"

MUTANTS = [
    # ---- C48.1 parse_duration grammar / table
    M("dur-end-anchor-dropped", TF,
      'pattern = rf"^\\s*(\\d+)\\s*({unit_pattern})\\s*$"', 'pattern = rf"^\\s*(\\d+)\\s*({unit_pattern})\\s*"', "C48.1"),
    M("dur-signed-number", TF,
      'pattern = rf"^\\s*(\\d+)\\s*({unit_pattern})\\s*$"', 'pattern = rf"^\\s*(-?\\d+)\\s*({unit_pattern})\\s*$"', "C48.1"),
    M("dur-leading-junk", TF,
      'pattern = rf"^\\s*(\\d+)\\s*({unit_pattern})\\s*$"', 'pattern = rf"^.*?(\\d+)\\s*({unit_pattern})\\s*$"', "C48.1"),
    M("dur-unit-without-multiplier", TF,
      '    DAYS1 = "days"\n', '    DAYS1 = "days"\n    WEEKS0 = "week"\n    WEEKS1 = "weeks"\n', "C48.1"),
    M("dur-month-30", TF, "    MONTH = 31*DAY\n", "    MONTH = 30*DAY\n", "C48.1"),
    M("dur-result-not-multiplied", TF,
      "    return number * time_map[unit]", "    return number + time_map[unit]", "C48.1"),
    # ---- C48.2 documented durations
    M("dur-doc-spelling-mo-dropped", TF,
      '    MONTHS0 = "mo"\n', "", "C48.2",
      edits=[(TF, "        ParseDurationUnitFormat.MONTHS0: MONTH,\n", "")]),
    M("dur-doc-space-required", TF,
      'pattern = rf"^\\s*(\\d+)\\s*({unit_pattern})\\s*$"', 'pattern = rf"^\\s*(\\d+)\\s+({unit_pattern})\\s*$"', "C48.2"),
    # ---- C48.3 parse_abbreviated_size grammar / table
    M("size-signed-number", AB,
      'm = re.match(r"^(\\d+)([KMGTPE]?[I]?[B]?)$", s.upper())', 'm = re.match(r"^(-?\\d+)([KMGTPE]?[I]?[B]?)$", s.upper())', "C48.3"),
    M("size-suffix-without-multiplier", AB,
      'm = re.match(r"^(\\d+)([KMGTPE]?[I]?[B]?)$", s.upper())', 'm = re.match(r"^(\\d+)([KMGTPEZ]?[I]?[B]?)$", s.upper())', "C48.3"),
    M("size-bare-i-binary", AB, '                  "I":  1,\n', '                  "I":  1024,\n', "C48.3"),
    M("size-strip-i-too", AB,
      '    if suffix.endswith("B"):\n        suffix = suffix[:-1]\n',
      '    if suffix.endswith("B"):\n        suffix = suffix[:-1]\n    if suffix.endswith("I") and len(suffix) == 1:\n        suffix = "KI"\n',
      "C48.3"),
    M("size-trailing-junk", AB,
      'm = re.match(r"^(\\d+)([KMGTPE]?[I]?[B]?)$", s.upper())', 'm = re.match(r"^(\\d+)([KMGTPE]?[I]?[B]?)", s.upper())', "C48.3",
      note="also caught by test_abbreviate"),
    # ---- C48.4 documented sizes
    M("size-doc-number-too-long", AB,
      'm = re.match(r"^(\\d+)([KMGTPE]?[I]?[B]?)$", s.upper())', 'm = re.match(r"^(\\d{1,8})([KMGTPE]?[I]?[B]?)$", s.upper())', "C48.4"),
    M("size-doc-ib-dropped", AB,
      'm = re.match(r"^(\\d+)([KMGTPE]?[I]?[B]?)$", s.upper())', 'm = re.match(r"^(\\d+)([KMGTPE]?[B]?)$", s.upper())', "C48.4",
      note="also caught by test_abbreviate"),
    # ---- C48.5 dates
    M("date-month-width", TF, "(?P<month>\\d{2})", "(?P<month>\\d{1,2})", "C48.5"),
    M("date-fields-swapped", TF,
      "calendar.timegm( (year, month, day, hour, minute, second, 0, 1, 0) )",
      "calendar.timegm( (year, day, month, hour, minute, second, 0, 1, 0) )", "C48.5"),
    M("date-not-midnight", TF,
      '    return int(iso_utc_time_to_seconds(s + "T00:00:00"))', '    return int(iso_utc_time_to_seconds(s + "T12:00:00"))', "C48.5"),
    # ---- C48.6 date grammar consumes the whole value (the missing end anchor is a finding of the unchanged tree;
    # a missing start anchor is reported on a different construct)
    M("date-search-unanchored", TF, "    m = _conversion_re.match(isotime)", "    m = _conversion_re.search(isotime)", "C48.6"),
    # ---- C48.7 printer within the parser's grammar (a new output shape gets a new construct key)
    M("printer-new-shape", AB,
      '    return r(s/(U*U*U*U*U*U), "E")', '    if s >= U*U*U*U*U*U*U:\n        return "%.3g ZB" % (s/(U*U*U*U*U*U*U))\n    return r(s/(U*U*U*U*U*U), "E")',
      "C48.7"),
    # ---- C48.8 plumbing
    M("cutoff-parsed-as-duration", CL,
      "            cutoff_date = parse_date(cutoff_date)", "            cutoff_date = parse_duration(cutoff_date)", "C48.8"),
    M("override-from-wrong-key", CL,
      'o_l_d = self.config.get_config("storage", "expire.override_lease_duration", None)',
      'o_l_d = self.config.get_config("storage", "expire.cutoff_date", None)', "C48.8"),
    M("kwargs-crossed", CL,
      "            expiration_override_lease_duration=o_l_d,\n            expiration_cutoff_date=cutoff_date,",
      "            expiration_override_lease_duration=cutoff_date,\n            expiration_cutoff_date=o_l_d,", "C48.8"),
    M("reserved-not-parsed", CL,
      "            reserved = parse_abbreviated_size(data)", "            reserved = int(data) if data else None", "C48.8"),
    # ---- behaviour-preserving
    M("benign-dur-fullmatch-casefold", TF,
      "    match = re.match(pattern, s, re.IGNORECASE)", "    match = re.fullmatch(pattern, s, flags=re.IGNORECASE)", None,
      edits=[(TF, "    unit = match.group(2).lower()", "    unit = match.group(2).casefold()")]),
    M("benign-dur-rename-and-inline", TF,
      "    number = int(match.group(1))  # Extract the numeric value\n    unit = match.group(2).lower()  # Extract the unit & normalize the unit to lowercase\n\n    return number * time_map[unit]",
      "    count = int(match.group(1))\n    seconds_per_unit = time_map[match.group(2).lower()]\n    return seconds_per_unit * count", None),
    M("benign-size-table-hoisted", AB,
      '    multiplier = {"":   1,', '    table = {"":   1,', None,
      edits=[(AB, '                  "EI": 1024 * 1024 * 1024 * 1024 * 1024 * 1024,\n                  }[suffix]\n',
              '                  "EI": 1024 * 1024 * 1024 * 1024 * 1024 * 1024,\n                  }\n    multiplier = table[suffix]\n')]),
    M("benign-size-strip-form", AB,
      '    if suffix.endswith("B"):\n        suffix = suffix[:-1]\n', '    if suffix[-1:] == "B":\n        suffix = suffix[:len(suffix) - 1]\n', None),
    M("benign-size-powers", AB,
      '                  "KI": 1024,\n                  "MI": 1024 * 1024,', '                  "KI": 2 ** 10,\n                  "MI": 1 << 20,', None),
    M("benign-client-temp", CL,
      "            cutoff_date = parse_date(cutoff_date)", "            cutoff_text = cutoff_date\n            cutoff_date = parse_date(cutoff_text)", None),
    # the small repairs of the findings must satisfy the rules
    M("benign-size-space-repair", AB,
      'm = re.match(r"^(\\d+)([KMGTPE]?[I]?[B]?)$", s.upper())', 'm = re.match(r"^(\\d+)\\s*([KMGTPE]?[I]?[B]?)$", s.upper())', None),
    M("benign-date-end-anchored", TF, "(?P<subsecond>\\.\\d+)?\")):", "(?P<subsecond>\\.\\d+)?$\")):", None),
    # ---- vanished anchor
    M("vanish-parse-duration", TF, "def parse_duration(s):", "def parse_duration_string(s):", "ANALYSIS-ERROR"),
]
