"""Strict self-test over every property that has variants: exit 1 on any failure."""
import glob
import json
import os
import sys

from .. import index as _index
from . import runner


def main():
    here = os.path.dirname(os.path.abspath(__file__))
    props = sorted(os.path.basename(p)[:-3] for p in glob.glob(os.path.join(here, "C*.py")))
    if len(sys.argv) > 1:
        props = sys.argv[1:]
    _index.get_index()
    rc = 0
    tot = {"breaking_fired": 0, "breaking_total": 0, "benign_silent": 0, "benign_total": 0, "skipped": 0}
    for p in props:
        if not os.path.exists(os.path.join(here, "..", "rules", p + ".py")):
            continue
        r = runner.run_for(p)
        for k in tot:
            tot[k] += r.get(k, 0)
        print("%s breaking %d/%d benign %d/%d vanish %d/%d skipped %d" % (
            p, r["breaking_fired"], r["breaking_total"], r["benign_silent"], r["benign_total"],
            r.get("vanish_detected", 0), r.get("vanish_total", 0), r["skipped"]))
        for f in r["failures"]:
            print("   FAIL " + f[:400])
            rc = 1
    print("TOTAL " + json.dumps(tot))
    return rc


if __name__ == "__main__":
    sys.exit(main())
