"""Systematic mutation sweep (thorough tier): AST-computed single-point edits of
the functions a property's rules are anchored in, each compiled and analysed
through the index overlay.  Not every such edit breaks the behavioural
property, so survivors are *reported*, never failed: the sweep measures how
much of the anchored code the rules actually constrain, and lists the
unconstrained edits for review.

Operators (each applied at one site, located by AST position, never by text search):
  cmp-flip     ==/!=, </<=, >/>=, is/is not, in/not in   (boundary and negation variants)
  test-negate  `if c:` -> `if not (c):` ; `while c` likewise; assert/precondition left alone
  stmt-delete  an expression statement / assignment / augmented assignment -> `pass`
  raise-delete `raise X` -> `pass`
  return-none  `return e` -> `return None`
  boolop-swap  and <-> or
  const-bump   integer literal n -> n+1  (not 0/1 inside subscripts of tuples: too noisy)
  arg-swap     f(a, b) -> f(b, a) for two-argument calls
  cb-drop      d.addCallback/addErrback/addBoth(...) statement -> `pass`

    /venv/bin/python -m sa.selftest.automut C02 [--max 400] [--jobs 16] [--list-survivors]
"""
from __future__ import annotations

import argparse
import ast
import json
import multiprocessing as mp
import os
import shutil
import sys
import tempfile
import traceback
from typing import Dict, List, Optional, Tuple

from .. import index as _index
from ..index import AnalysisError, FuncInfo
from ..rule import known_keys, load_known

_CMP_ALT = {ast.Eq: ["!="], ast.NotEq: ["=="], ast.Lt: ["<=", ">="], ast.LtE: ["<", ">"], ast.Gt: [">=", "<="],
            ast.GtE: [">", "<"], ast.Is: ["is not"], ast.IsNot: ["is"], ast.In: ["not in"], ast.NotIn: ["in"]}
_CMP_SRC = {ast.Eq: "==", ast.NotEq: "!=", ast.Lt: "<", ast.LtE: "<=", ast.Gt: ">", ast.GtE: ">=", ast.Is: "is",
            ast.IsNot: "is not", ast.In: "in", ast.NotIn: "not in"}


class Edit:
    __slots__ = ("path", "start", "end", "new", "op", "func", "line", "old")

    def __init__(self, path, start, end, new, op, func, line, old):
        self.path, self.start, self.end, self.new, self.op, self.func, self.line, self.old = \
            path, start, end, new, op, func, line, old

    def ident(self):
        return "%s:%s:L%d:%s:%s->%s" % (self.op, self.func.split(":", 1)[-1], self.line, "",
                                        " ".join(self.old.split())[:50], " ".join(self.new.split())[:50])


def _offsets(src: str):
    offs = [0]
    for ln in src.splitlines(keepends=True):
        offs.append(offs[-1] + len(ln.encode("utf-8")))
    return offs


def _span(node, offs, srcb):
    s = offs[node.lineno - 1] + node.col_offset
    e = offs[node.end_lineno - 1] + node.end_col_offset
    return s, e


def gen_edits(fn: FuncInfo) -> List[Edit]:
    m = fn.module
    rel = m.relpath
    srcb = m.source.encode("utf-8")
    offs = _offsets(m.source)
    out: List[Edit] = []
    q = fn.qual

    def add(node, new, op):
        s, e = _span(node, offs, srcb)
        old = srcb[s:e].decode("utf-8")
        if old != new:
            out.append(Edit(rel, s, e, new, op, q, node.lineno, old))

    def seg(node):
        s, e = _span(node, offs, srcb)
        return srcb[s:e].decode("utf-8")

    if isinstance(fn.node, ast.Lambda):
        return out
    for st in fn.node.body:
        stack = [st]
        while stack:
            n = stack.pop()
            if isinstance(n, (ast.FunctionDef, ast.AsyncFunctionDef, ast.ClassDef)) and n is not st:
                continue
            if isinstance(n, (ast.FunctionDef, ast.AsyncFunctionDef, ast.ClassDef)) and n is st:
                continue
            # statements
            if isinstance(n, ast.Expr):
                if isinstance(n.value, ast.Constant):
                    pass
                elif isinstance(n.value, ast.Call) and getattr(n.value.func, "attr", "") in (
                        "addCallback", "addErrback", "addBoth", "addCallbacks"):
                    add(n, "pass", "cb-drop")
                elif isinstance(n.value, ast.Call) and getattr(n.value.func, "attr", getattr(n.value.func, "id", "")) in (
                        "msg", "log", "err", "precondition", "_assert", "postcondition"):
                    pass   # logging / assertions: not behaviour
                else:
                    add(n, "pass", "stmt-delete")
            elif isinstance(n, (ast.Assign, ast.AugAssign)):
                add(n, "pass", "stmt-delete")
            elif isinstance(n, ast.Raise):
                add(n, "pass", "raise-delete")
            elif isinstance(n, ast.Return) and n.value is not None and not (
                    isinstance(n.value, ast.Constant) and n.value.value is None):
                add(n, "return None", "return-none")
            elif isinstance(n, (ast.If, ast.While)):
                add(n.test, "not (%s)" % seg(n.test), "test-negate")
            # expressions
            if isinstance(n, ast.Compare) and len(n.ops) == 1:
                l, r = seg(n.left), seg(n.comparators[0])
                for alt in _CMP_ALT.get(type(n.ops[0]), []):
                    add(n, "%s %s %s" % (l, alt, r), "cmp-flip")
            elif isinstance(n, ast.BoolOp) and len(n.values) == 2:
                a, b = seg(n.values[0]), seg(n.values[1])
                add(n, "(%s) %s (%s)" % (a, "or" if isinstance(n.op, ast.And) else "and", b), "boolop-swap")
            elif isinstance(n, ast.Constant) and isinstance(n.value, int) and not isinstance(n.value, bool):
                add(n, str(n.value + 1), "const-bump")
            elif isinstance(n, ast.Call) and len(n.args) == 2 and not n.keywords \
                    and not any(isinstance(a, ast.Starred) for a in n.args):
                a, b = seg(n.args[0]), seg(n.args[1])
                if a != b:
                    s0, _ = _span(n.args[0], offs, srcb)
                    _, e1 = _span(n.args[1], offs, srcb)
                    old = srcb[s0:e1].decode("utf-8")
                    out.append(Edit(rel, s0, e1, "%s, %s" % (b, a), "arg-swap", q, n.lineno, old))
            for c in ast.iter_child_nodes(n):
                if isinstance(c, (ast.FunctionDef, ast.AsyncFunctionDef, ast.ClassDef, ast.Lambda)):
                    continue
                stack.append(c)
    return out


_ANCHORS: Dict[str, List[str]] = {}


def anchors_of(prop: str) -> List[FuncInfo]:
    """Functions the property's rules looked up / attached sites to on the pinned tree."""
    from ..check import run_property
    idx = _index.get_index()
    seen: List[str] = []
    orig = idx.func

    def spy(q):
        f = orig(q)
        if f.qual not in seen:
            seen.append(f.qual)
        return f
    idx.func = spy  # type: ignore
    try:
        ctx, _m = run_property(prop, "quick", idx)
    finally:
        idx.func = orig  # type: ignore
    # plus functions named in rule sites
    for r in ctx.rules:
        for s in r.sites:
            head = s.split(" ", 1)[0]
            for f in idx.funcs.values():
                if f.qual.endswith(":" + head) and f.qual not in seen:
                    seen.append(f.qual)
    return [idx.funcs[q] for q in seen if q in idx.funcs]


def _run_edit(args):
    prop, e = args
    try:
        tmp = tempfile.mkdtemp(prefix="vtam-")
        try:
            base = os.path.join(_index.REPO, e["path"])
            with open(base, "rb") as f:
                srcb = f.read()
            nb = srcb[:e["start"]] + e["new"].encode("utf-8") + srcb[e["end"]:]
            try:
                compile(nb, e["path"], "exec")
            except (SyntaxError, ValueError):
                return {"id": e["id"], "status": "uncompilable"}
            out = os.path.join(tmp, os.path.basename(e["path"]))
            with open(out, "wb") as f:
                f.write(nb)
            _index.set_overlay({e["path"]: out})
            from ..check import run_property
            try:
                idx = _index.Index()
                ctx, _mod = run_property(prop, "quick", idx)
            except AnalysisError as ex:
                return {"id": e["id"], "status": "analysis-error", "why": str(ex)[:160]}
            finally:
                _index.set_overlay({})
            known = known_keys(load_known())
            new_v = [v for v in ctx.violations() if v.key() not in known]
            if new_v:
                return {"id": e["id"], "status": "caught", "rules": sorted({v.rule for v in new_v})}
            if ctx.analysis_errors:
                return {"id": e["id"], "status": "analysis-error", "why": "; ".join(ctx.analysis_errors)[:160]}
            return {"id": e["id"], "status": "survived"}
        finally:
            shutil.rmtree(tmp, ignore_errors=True)
    except Exception:
        return {"id": e.get("id"), "status": "error", "why": traceback.format_exc()[-300:]}


def sweep(prop: str, max_edits: int = 400, jobs: int = 16, seed: int = 0) -> Dict:
    fns = anchors_of(prop)
    edits: List[Edit] = []
    for f in fns:
        if f.module.relpath.startswith("src/"):
            edits.extend(gen_edits(f))
    total = len(edits)
    if total > max_edits:
        import random
        rnd = random.Random(seed)
        edits = rnd.sample(edits, max_edits)
    tasks = [(prop, {"id": e.ident(), "path": e.path, "start": e.start, "end": e.end, "new": e.new}) for e in edits]
    if jobs > 1 and len(tasks) > 1:
        with mp.get_context("fork").Pool(min(jobs, len(tasks))) as pool:
            res = pool.map(_run_edit, tasks, chunksize=4)
    else:
        res = [_run_edit(t) for t in tasks]
    stat = {"caught": 0, "survived": 0, "analysis-error": 0, "uncompilable": 0, "error": 0}
    by_op: Dict[str, Dict[str, int]] = {}
    survivors = []
    for e, r in zip(edits, res):
        stat[r["status"]] = stat.get(r["status"], 0) + 1
        d = by_op.setdefault(e.op, {})
        d[r["status"]] = d.get(r["status"], 0) + 1
        if r["status"] == "survived":
            survivors.append(e.ident())
    return {"anchored_functions": [f.qual for f in fns], "edits_generated": total, "edits_run": len(edits),
            "result": stat, "by_operator": by_op, "survivors": survivors}


def main():
    ap = argparse.ArgumentParser()
    ap.add_argument("prop")
    ap.add_argument("--max", type=int, default=400)
    ap.add_argument("--jobs", type=int, default=int(os.environ.get("SA_JOBS", "16")))
    ap.add_argument("--list-survivors", action="store_true")
    a = ap.parse_args()
    r = sweep(a.prop, a.max, a.jobs)
    surv = r.pop("survivors")
    print(json.dumps(r, indent=1))
    if a.list_survivors:
        for s in surv:
            print("  survived", s)


if __name__ == "__main__":
    main()
