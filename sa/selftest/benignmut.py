"""Robustness sweep: behaviour-PRESERVING single-point rewrites of the functions a
property's rules are anchored in.  Every rewrite keeps the program's behaviour, so
any VIOLATION the check reports on one is a false alarm of the checker, and an
ANALYSIS-ERROR is a rule that cannot follow an innocent refactor (fail-closed, but
noise).  Used while developing the rules and in the thorough tier (reported in the
evidence; it never turns into an alarm about the code).

Operators (AST-located, applied at one site each):
  cmp-mirror     a == b -> b == a, a != b -> b != a, a < b -> b > a, ... (call-free operands only)
  test-dblneg    if c: -> if not (not (c)):
  if-swap        if c: A else: B -> if not (c): B else: A
  local-rename   consistent rename of one plain local (not a parameter, not used by nested defs)
  ret-hoist      return E -> _sa_rv = E; return _sa_rv
  pass-insert    a `pass` statement in front of a statement
  paren-wrap     x = E -> x = (E)
  aug-expand     x += E -> x = x + (E)   (plain-name or self.attr targets, + - * only)
  and-nest       if A and B: S (no else) -> if A: if B: S
  unpack-split   a, b = X, Y -> a = X; b = Y   (when Y does not read a and X/Y are call-free)

    /venv/bin/python -m sa.selftest.benignmut C02 [--max 200] [--jobs 16] [--list]
"""
from __future__ import annotations

import argparse
import ast
import json
import os
import sys
from typing import Dict, List

from ..index import FuncInfo
from . import automut
from .automut import Edit, _offsets, _span

_MIRROR = {ast.Eq: "==", ast.NotEq: "!=", ast.Lt: ">", ast.LtE: ">=", ast.Gt: "<", ast.GtE: "<="}


def _callfree(e: ast.AST) -> bool:
    return not any(isinstance(x, (ast.Call, ast.Await, ast.Yield, ast.YieldFrom, ast.NamedExpr)) for x in ast.walk(e))


def gen_benign(fn: FuncInfo) -> List[Edit]:
    m = fn.module
    rel = m.relpath
    srcb = m.source.encode("utf-8")
    offs = _offsets(m.source)
    out: List[Edit] = []
    q = fn.qual
    if isinstance(fn.node, ast.Lambda):
        return out

    def seg(node):
        s, e = _span(node, offs, srcb)
        return srcb[s:e].decode("utf-8")

    def add(node, new, op):
        s, e = _span(node, offs, srcb)
        old = srcb[s:e].decode("utf-8")
        if old != new:
            out.append(Edit(rel, s, e, new, op, q, node.lineno, old))

    def indent_of(node) -> str:
        line = m.lines[node.lineno - 1]
        return line[: len(line) - len(line.lstrip())]

    def one_line(node) -> bool:
        return node.lineno == node.end_lineno

    own: List[ast.AST] = []
    stack = list(fn.node.body)
    while stack:
        n = stack.pop()
        own.append(n)
        for c in ast.iter_child_nodes(n):
            if isinstance(c, (ast.FunctionDef, ast.AsyncFunctionDef, ast.ClassDef, ast.Lambda)):
                continue
            stack.append(c)

    for n in own:
        if isinstance(n, ast.Compare) and len(n.ops) == 1 and type(n.ops[0]) in _MIRROR \
                and _callfree(n.left) and _callfree(n.comparators[0]):
            add(n, "%s %s %s" % (seg(n.comparators[0]), _MIRROR[type(n.ops[0])], seg(n.left)), "cmp-mirror")
        if isinstance(n, (ast.If, ast.While)):
            add(n.test, "not (not (%s))" % seg(n.test), "test-dblneg")
        if isinstance(n, ast.If) and n.orelse and not (len(n.orelse) == 1 and isinstance(n.orelse[0], ast.If)) \
                and not m.lines[n.lineno - 1][n.col_offset:].startswith("elif"):
            # rebuild with swapped branches, keeping the original text of each branch
            ind = indent_of(n)
            body_first, body_last = n.body[0], n.body[-1]
            else_first, else_last = n.orelse[0], n.orelse[-1]
            if indent_of(body_first) == indent_of(else_first) and body_first.lineno > n.lineno and else_first.lineno > body_last.end_lineno:
                lines = m.lines
                body_txt = "\n".join(lines[body_first.lineno - 1: body_last.end_lineno])
                else_txt = "\n".join(lines[else_first.lineno - 1: else_last.end_lineno])
                new = "if not (%s):\n%s\n%selse:\n%s" % (seg(n.test), else_txt, ind, body_txt)
                # only when the text between the branches is exactly the `else:` line (no comments lost matter)
                s = offs[n.lineno - 1] + n.col_offset
                e = offs[else_last.end_lineno - 1] + len(lines[else_last.end_lineno - 1].encode("utf-8"))
                old = srcb[s:e].decode("utf-8")
                out.append(Edit(rel, s, e, new, "if-swap", q, n.lineno, old))
        if isinstance(n, ast.Return) and n.value is not None and one_line(n) and not isinstance(n.value, ast.Constant) \
                and n.value.lineno == n.lineno and n.value.col_offset > n.col_offset:   # (not a canonicalised `x = E; return x`)
            ind = indent_of(n)
            add(n, "_sa_rv = %s\n%sreturn _sa_rv" % (seg(n.value), ind), "ret-hoist")
        if isinstance(n, ast.Assign) and one_line(n) and len(n.targets) == 1 and not isinstance(n.value, (ast.Tuple, ast.Yield, ast.YieldFrom)):
            add(n.value, "(%s)" % seg(n.value), "paren-wrap")
        if isinstance(n, ast.AugAssign) and one_line(n) and isinstance(n.op, (ast.Add, ast.Sub, ast.Mult)) \
                and (isinstance(n.target, ast.Name) or (isinstance(n.target, ast.Attribute)
                                                        and isinstance(n.target.value, ast.Name))):
            opch = {ast.Add: "+", ast.Sub: "-", ast.Mult: "*"}[type(n.op)]
            add(n, "%s = %s %s (%s)" % (seg(n.target), seg(n.target), opch, seg(n.value)), "aug-expand")
        if isinstance(n, ast.If) and not n.orelse and isinstance(n.test, ast.BoolOp) and isinstance(n.test.op, ast.And) \
                and len(n.test.values) == 2 and n.body and n.body[0].lineno > n.lineno \
                and not m.lines[n.lineno - 1][n.col_offset:].startswith("elif"):
            ind = indent_of(n)
            body_first, body_last = n.body[0], n.body[-1]
            bind = indent_of(body_first)
            extra = bind[len(ind):] if bind.startswith(ind) and len(bind) > len(ind) else "    "
            body_lines = m.lines[body_first.lineno - 1: body_last.end_lineno]
            new_body = "\n".join((extra + ln) if ln.strip() else ln for ln in body_lines)
            s0 = offs[n.lineno - 1] + n.col_offset
            e0 = offs[body_last.end_lineno - 1] + len(m.lines[body_last.end_lineno - 1].encode("utf-8"))
            old_txt = srcb[s0:e0].decode("utf-8")
            new_txt = "if %s:\n%sif %s:\n%s" % (seg(n.test.values[0]), bind, seg(n.test.values[1]), new_body)
            out.append(Edit(rel, s0, e0, new_txt, "and-nest", q, n.lineno, old_txt))
        if isinstance(n, ast.Assign) and one_line(n) and len(n.targets) == 1 and isinstance(n.targets[0], ast.Tuple) \
                and isinstance(n.value, ast.Tuple) and len(n.targets[0].elts) == 2 and len(n.value.elts) == 2 \
                and all(isinstance(t, ast.Name) for t in n.targets[0].elts) \
                and _callfree(n.value) \
                and n.targets[0].elts[0].id not in {x.id for x in ast.walk(n.value.elts[1]) if isinstance(x, ast.Name)}:
            ind = indent_of(n)
            a, b = n.targets[0].elts
            add(n, "%s = %s\n%s%s = %s" % (a.id, seg(n.value.elts[0]), ind, b.id, seg(n.value.elts[1])), "unpack-split")
        if isinstance(n, (ast.Assign, ast.Expr, ast.Return, ast.AugAssign)) and one_line(n) \
                and not (isinstance(n, ast.Expr) and isinstance(n.value, ast.Constant)):
            ind = indent_of(n)
            s = offs[n.lineno - 1] + n.col_offset
            out.append(Edit(rel, s, s, "pass\n%s" % ind, "pass-insert", q, n.lineno, ""))

    # local-rename: names assigned in this function, not params, not referenced by nested scopes,
    # not declared global/nonlocal
    params = set(fn.params)
    assigned: Dict[str, List[ast.Name]] = {}
    for n in own:
        if isinstance(n, ast.Name):
            assigned.setdefault(n.id, []).append(n)
    stored = {k for k, v in assigned.items() if any(isinstance(x.ctx, ast.Store) for x in v)}
    nested_names = set()
    for n in ast.walk(fn.node):
        if n is fn.node:
            continue
        if isinstance(n, (ast.FunctionDef, ast.AsyncFunctionDef, ast.Lambda, ast.ClassDef)):
            for x in ast.walk(n):
                if isinstance(x, ast.Name):
                    nested_names.add(x.id)
                elif isinstance(x, ast.arg):
                    nested_names.add(x.arg)
        if isinstance(n, (ast.Global, ast.Nonlocal)):
            nested_names.update(n.names)
        if isinstance(n, (ast.ListComp, ast.SetComp, ast.DictComp, ast.GeneratorExp)):
            for x in ast.walk(n):
                if isinstance(x, ast.Name):
                    nested_names.add(x.id)
    enclosing = set()
    p = fn.parent
    while p is not None:
        enclosing.update(p.params)
        p = p.parent
    for name in sorted(stored - params - nested_names - enclosing):
        if name.startswith("_sa_") or name in ("self", "cls"):
            continue
        occ = sorted(assigned[name], key=lambda x: (x.lineno, x.col_offset))
        # one Edit object per occurrence is not possible (single-span edits): rewrite the whole function span
        fs = offs[fn.node.lineno - 1]
        fe = offs[fn.node.end_lineno - 1] + len(m.lines[fn.node.end_lineno - 1].encode("utf-8"))
        text = srcb[fs:fe]
        new = bytearray()
        pos = fs
        ok = True
        for x in occ:
            s, e = _span(x, offs, srcb)
            if srcb[s:e].decode("utf-8") != name:
                ok = False
                break
            new += srcb[pos:s] + (name + "_sa").encode("utf-8")
            pos = e
        if not ok:
            continue
        new += srcb[pos:fe]
        # keyword arguments / attribute names with the same spelling are untouched (only ast.Name nodes)
        out.append(Edit(rel, fs, fe, new.decode("utf-8"), "local-rename", q, occ[0].lineno, name))
    return out


def sweep(prop: str, max_edits: int = 200, jobs: int = 16, seed: int = 0, ops=None) -> Dict:
    import multiprocessing as mp
    import random
    fns = automut.anchors_of(prop)
    edits: List[Edit] = []
    for f in fns:
        if f.module.relpath.startswith("src/"):
            try:
                edits.extend(gen_benign(f))
            except Exception:
                continue
    if ops:
        edits = [e for e in edits if e.op in ops]
    total = len(edits)
    if total > max_edits:
        edits = random.Random(seed).sample(edits, max_edits)
    tasks = [(prop, {"id": e.ident(), "path": e.path, "start": e.start, "end": e.end, "new": e.new}) for e in edits]
    if jobs > 1 and len(tasks) > 1:
        with mp.get_context("fork").Pool(min(jobs, len(tasks))) as pool:
            res = pool.map(automut._run_edit, tasks, chunksize=4)
    else:
        res = [automut._run_edit(t) for t in tasks]
    stat = {"silent": 0, "false-alarm": 0, "analysis-error": 0, "uncompilable": 0, "error": 0}
    alarms, aerrs = [], []
    for e, r in zip(edits, res):
        st = {"survived": "silent", "caught": "false-alarm"}.get(r["status"], r["status"])
        stat[st] = stat.get(st, 0) + 1
        if st == "false-alarm":
            alarms.append("%s  -> %s" % (e.ident(), r.get("rules")))
        elif st == "analysis-error":
            aerrs.append("%s  -> %s" % (e.ident(), r.get("why", "")[:120]))
    return {"anchored_functions": len(fns), "edits_generated": total, "edits_run": len(edits), "result": stat,
            "false_alarms": alarms, "analysis_errors": aerrs}


def main():
    ap = argparse.ArgumentParser()
    ap.add_argument("prop")
    ap.add_argument("--max", type=int, default=200)
    ap.add_argument("--jobs", type=int, default=int(os.environ.get("SA_JOBS", "16")))
    ap.add_argument("--list", action="store_true")
    ap.add_argument("--ops", default="", help="comma-separated operator names (default: all)")
    a = ap.parse_args()
    r = sweep(a.prop, a.max, a.jobs, ops=set(a.ops.split(",")) if a.ops else None)
    fa, ae = r.pop("false_alarms"), r.pop("analysis_errors")
    print(json.dumps(r))
    if a.list:
        for x in fa:
            print("  FALSE-ALARM", x)
        for x in ae:
            print("  ANALYSIS-ERROR", x)


if __name__ == "__main__":
    main()
