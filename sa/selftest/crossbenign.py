"""Cross-property robustness: run every *benign* self-test variant of property Q through the rules of
every other property P that looks at the edited module.

A benign variant is a behaviour-preserving rewrite that Q's own rules must leave silent; the other
properties anchored in the same code never saw it when their rules were written.  A violation reported
here is a false alarm of P (exit 1 on code where the property holds); an analysis error is P failing
closed (exit 2), listed separately.

    /venv/bin/python -m sa.selftest.crossbenign [--jobs N] [--only-from Q ...] [--list]
"""
from __future__ import annotations

import argparse
import importlib
import json
import multiprocessing as mp
import os
import re
import shutil
import tempfile
import traceback

from .. import index as _index
from ..index import AnalysisError
from ..rule import known_keys, load_known
from .runner import _apply

HERE = os.path.dirname(os.path.abspath(__file__))
RULES = os.path.join(os.path.dirname(HERE), "rules")


def _props():
    with open(os.path.join(os.path.dirname(HERE), "accepted.txt")) as f:
        return f.read().split()


def _rule_text(p, seen=None):
    """Text of P's rule file and of the rule files it adopts rules from."""
    seen = seen if seen is not None else set()
    if p in seen:
        return ""
    seen.add(p)
    try:
        with open(os.path.join(RULES, p + ".py"), encoding="utf-8") as f:
            t = f.read()
    except OSError:
        return ""
    for q in set(re.findall(r"""include\(\s*["'](C\d\d)["']""", t)) | set(re.findall(r"import (C\d\d) as", t)):
        t += _rule_text(q, seen)
    return t


def _run(args):
    q, mid, p = args
    try:
        mod = importlib.import_module("sa.selftest.%s" % q)
        m = [x for x in mod.MUTANTS if x.id == mid][0]
        tmp = tempfile.mkdtemp(prefix="vt-")
        try:
            overlay = {}
            for (path, old, new) in [(m.path, m.old, m.new)] + list(m.edits):
                base = overlay.get(path) or os.path.join(_index.REPO, path)
                with open(base, encoding="utf-8") as f:
                    text = f.read()
                nt = _apply(text, old, new)
                if nt is None:
                    return (q, mid, p, "skipped", "")
                out = os.path.join(tmp, "%d_%s" % (len(overlay), os.path.basename(path)))
                with open(out, "w", encoding="utf-8") as f:
                    f.write(nt)
                overlay[path] = out
            _index.set_overlay(overlay)
            from ..check import run_property
            try:
                ctx, _ = run_property(p, "quick", _index.Index())
            except AnalysisError as e:
                return (q, mid, p, "analysis-error", str(e)[:240])
            finally:
                _index.set_overlay({})
            known = known_keys(load_known())
            new_v = [v for v in ctx.violations() if v.key() not in known]
            if new_v:
                return (q, mid, p, "violation", "%s %s: %s" % (new_v[0].rule, new_v[0].construct, new_v[0].msg[:200]))
            if ctx.analysis_errors:
                return (q, mid, p, "analysis-error", "; ".join(ctx.analysis_errors)[:240])
            return (q, mid, p, "silent", "")
        finally:
            shutil.rmtree(tmp, ignore_errors=True)
    except Exception:
        return (q, mid, p, "error", traceback.format_exc()[-400:])


def _refactor_like(m):
    return bool(m.edits) or re.search("faithful|refactor|extract|inline|table", m.id) is not None


def tasks(only_from=None, refactors_only=False):
    props = _props()
    texts = {p: _rule_text(p) for p in props}
    out = []
    for q in props:
        if only_from and q not in only_from:
            continue
        try:
            mod = importlib.import_module("sa.selftest.%s" % q)
        except ModuleNotFoundError:
            continue
        for m in mod.MUTANTS:
            if m.expect is not None:
                continue
            if refactors_only and not _refactor_like(m):
                continue
            files = [m.path] + [e[0] for e in m.edits]
            stems = {os.path.splitext(os.path.basename(f))[0] for f in files}
            for p in props:
                if p == q:
                    continue
                if any(re.search(r"\b%s\b" % re.escape(s), texts[p]) for s in stems):
                    out.append((q, m.id, p))
    return out


def main():
    ap = argparse.ArgumentParser()
    ap.add_argument("--jobs", type=int, default=int(os.environ.get("SA_JOBS", "16")))
    ap.add_argument("--only-from", nargs="*")
    ap.add_argument("--list", action="store_true", help="print every non-silent outcome")
    ap.add_argument("--refactors", action="store_true", help="only multi-edit / refactor-like benign variants")
    a = ap.parse_args()
    ts = tasks(a.only_from, a.refactors)
    with mp.get_context("fork").Pool(a.jobs) as pool:
        res = pool.map(_run, ts, chunksize=4)
    count = {}
    for r in res:
        count[r[3]] = count.get(r[3], 0) + 1
    if a.list:
        for r in sorted(res):
            if r[3] in ("violation", "analysis-error", "error"):
                print("%s\t%s variant %s -> %s\t%s" % (r[3].upper(), r[0], r[1], r[2], r[4]))
    print(json.dumps({"pairs": len(ts), "result": count}))


if __name__ == "__main__":
    main()
