"""Self-test of the checkers: each mutant is an edit of one repository file,
anchored to a construct (the snippet must occur exactly once in the file, or in
the named function), compiled to prove the variant still builds, and analysed
in-process through the index overlay.  Nothing is written under /repo or
/verif; the variant file lives in a temp dir that is removed at once.

breaking mutants must make the property's check report a violation (of the
expected rule); benign mutants (behaviour-preserving refactors) must leave it
silent; 'vanish' mutants must give ANALYSIS-ERROR, never a pass.
A mutant whose anchor snippet is not present in the current tree is *skipped*
(reported, not failed): the self-test never turns an edit of /repo into an
alarm by itself.
"""
from __future__ import annotations

import importlib
import json
import multiprocessing as mp
import os
import shutil
import tempfile
import traceback
from typing import Any, Dict, List, Optional

from .. import index as _index
from ..index import AnalysisError
from ..rule import known_keys, load_known


class M:
    def __init__(self, mid: str, path: str, old: str, new: str, expect, within: Optional[str] = None,
                 note: str = "", edits: Optional[list] = None):
        """expect: rule-id prefix (str) or list of them for a breaking mutant; None for benign;
        'ANALYSIS-ERROR' for a vanished anchor.  `edits`: further (path, old, new) triples
        applied together (two cooperating sites)."""
        self.id = mid
        self.path = path
        self.old = old
        self.new = new
        self.expect = expect
        self.within = within
        self.note = note
        self.edits = edits or []


def _apply(text: str, old: str, new: str) -> Optional[str]:
    if text.count(old) != 1:
        return None
    return text.replace(old, new)


def _run_one(args):
    prop, mid = args
    try:
        mod = importlib.import_module("sa.selftest.%s" % prop)
        m = [x for x in mod.MUTANTS if x.id == mid][0]
        tmp = tempfile.mkdtemp(prefix="vt-")
        try:
            overlay = {}
            for (path, old, new) in [(m.path, m.old, m.new)] + list(m.edits):
                base = overlay.get(path) or os.path.join(_index.REPO, path)
                with open(base, encoding="utf-8") as f:
                    text = f.read()
                nt = _apply(text, old, new)
                if nt is None:
                    return {"id": mid, "status": "skipped", "why": "anchor snippet not found exactly once in %s" % path}
                try:
                    compile(nt, path, "exec")
                except SyntaxError as e:
                    return {"id": mid, "status": "error", "why": "variant does not compile: %s" % e}
                out = os.path.join(tmp, "%d_%s" % (len(overlay), os.path.basename(path)))
                with open(out, "w", encoding="utf-8") as f:
                    f.write(nt)
                overlay[path] = out
            _index.set_overlay(overlay)
            from ..check import run_property
            try:
                idx = _index.Index()
                ctx, _mod = run_property(prop, "quick", idx)
            except AnalysisError as e:
                return {"id": mid, "status": "analysis-error", "why": str(e)[:300]}
            finally:
                _index.set_overlay({})
            known = known_keys(load_known())
            new_v = [v for v in ctx.violations() if v.key() not in known]
            if ctx.analysis_errors and not new_v:
                return {"id": mid, "status": "analysis-error", "why": "; ".join(ctx.analysis_errors)[:300]}
            return {"id": mid, "status": "violation" if new_v else "silent",
                    "rules": sorted({v.rule for v in new_v}),
                    "first": (new_v[0].msg[:200] if new_v else "")}
        finally:
            shutil.rmtree(tmp, ignore_errors=True)
    except Exception:
        return {"id": mid, "status": "error", "why": traceback.format_exc()[-600:]}


def run_for(prop: str, jobs: int = int(os.environ.get("SA_JOBS", "4"))) -> Dict[str, Any]:
    try:
        mod = importlib.import_module("sa.selftest.%s" % prop)
    except ModuleNotFoundError:
        return {"breaking_fired": 0, "breaking_total": 0, "benign_silent": 0, "benign_total": 0,
                "skipped": 0, "failures": [], "results": [], "note": "no self-test variants registered"}
    muts: List[M] = mod.MUTANTS
    tasks = [(prop, m.id) for m in muts]
    if len(tasks) > 1 and jobs > 1:
        with mp.get_context("fork").Pool(min(jobs, len(tasks))) as pool:
            results = pool.map(_run_one, tasks, chunksize=1)
    else:
        results = [_run_one(t) for t in tasks]
    res = {"breaking_fired": 0, "breaking_total": 0, "benign_silent": 0, "benign_total": 0,
           "vanish_detected": 0, "vanish_total": 0, "skipped": 0, "failures": [], "results": []}
    for m, r in zip(muts, results):
        r["expect"] = m.expect
        res["results"].append(r)
        if r["status"] == "skipped":
            res["skipped"] += 1
            continue
        if r["status"] == "error":
            res["failures"].append("%s: %s" % (m.id, r.get("why")))
            continue
        if m.expect is None:
            res["benign_total"] += 1
            if r["status"] == "silent":
                res["benign_silent"] += 1
            else:
                res["failures"].append("benign variant %s made the check report %s %s %s" % (
                    m.id, r["status"], r.get("rules", ""), r.get("why", r.get("first", ""))))
        elif m.expect == "ANALYSIS-ERROR":
            res["vanish_total"] += 1
            if r["status"] == "analysis-error":
                res["vanish_detected"] += 1
            else:
                res["failures"].append("vanished-anchor variant %s gave %s instead of ANALYSIS-ERROR" % (m.id, r["status"]))
        else:
            res["breaking_total"] += 1
            exp = [m.expect] if isinstance(m.expect, str) else list(m.expect)
            if r["status"] == "violation" and any(any(x == e or x.startswith(e + ".") for x in r["rules"]) for e in exp):
                res["breaking_fired"] += 1
            else:
                res["failures"].append("breaking variant %s (expected %s) gave %s %s %s" % (
                    m.id, exp, r["status"], r.get("rules", ""), r.get("why", "")))
    return res


if __name__ == "__main__":
    import sys
    props = sys.argv[1:]
    rc = 0
    for p in props:
        _index.get_index()
        r = run_for(p)
        print(p, json.dumps({k: v for k, v in r.items() if k != "results"}, indent=1))
        for x in r["results"]:
            print("   ", x)
        if r["failures"]:
            rc = 1
    sys.exit(rc)
