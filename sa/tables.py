"""E5: constant folding and table extraction (struct formats, regexes, format
templates, dict keys).  Nothing from the package is imported; expressions are
folded from their ASTs."""
from __future__ import annotations

import ast
import re
import struct
from typing import Any, Dict, List, Optional, Tuple

from .index import AnalysisError, ClassInfo, FuncInfo, Index, Module

try:  # Python >= 3.11
    import re._parser as sre_parse          # type: ignore
    import re._constants as sre_constants   # type: ignore
except ImportError:  # pragma: no cover
    import sre_parse                        # type: ignore
    import sre_constants                    # type: ignore


class NotConstant(Exception):
    pass


class Folder:
    """Folds expressions at module / class scope to Python values."""

    def __init__(self, idx: Index):
        self.idx = idx
        self._busy = set()

    def fold(self, e: ast.AST, m: Module, cls: Optional[ClassInfo] = None, local: Optional[Dict[str, Any]] = None):
        f = lambda x: self.fold(x, m, cls, local)
        if isinstance(e, ast.Constant):
            return e.value
        if isinstance(e, ast.Name):
            if local and e.id in local:
                return local[e.id]
            return self.name(e.id, m, cls)
        if isinstance(e, ast.Attribute):
            # self.X / cls.X / Class.X / module.X
            if isinstance(e.value, ast.Name) and e.value.id in ("self", "cls") and cls is not None:
                return self.class_attr(cls, e.attr)
            r = self.idx.resolve_expr(m, e.value)
            if isinstance(r, ClassInfo):
                return self.class_attr(r, e.attr)
            if isinstance(r, Module):
                return self.name(e.attr, r, None)
            raise NotConstant(ast.unparse(e))
        if isinstance(e, ast.BinOp):
            l, r = f(e.left), f(e.right)
            try:
                if isinstance(e.op, ast.Add):
                    return l + r
                if isinstance(e.op, ast.Sub):
                    return l - r
                if isinstance(e.op, ast.Mult):
                    return l * r
                if isinstance(e.op, ast.FloorDiv):
                    return l // r
                if isinstance(e.op, ast.Mod):
                    return l % r
                if isinstance(e.op, ast.Pow):
                    return l ** r
                if isinstance(e.op, ast.LShift):
                    return l << r
                if isinstance(e.op, ast.BitOr):
                    return l | r
            except Exception as ex:
                raise NotConstant(str(ex))
            raise NotConstant(ast.unparse(e))
        if isinstance(e, ast.UnaryOp) and isinstance(e.op, ast.USub):
            return -f(e.operand)
        if isinstance(e, ast.Tuple):
            return tuple(f(x) for x in e.elts)
        if isinstance(e, ast.List):
            return [f(x) for x in e.elts]
        if isinstance(e, ast.Set):
            return set(f(x) for x in e.elts)
        if isinstance(e, ast.Dict):
            return {f(k): f(v) for k, v in zip(e.keys, e.values)}
        if isinstance(e, ast.JoinedStr):
            parts = []
            for v in e.values:
                if isinstance(v, ast.Constant):
                    parts.append(v.value)
                elif isinstance(v, ast.FormattedValue):
                    parts.append(format(f(v.value), f(v.format_spec) if v.format_spec else ""))
            return "".join(parts)
        if isinstance(e, ast.Call):
            fn = e.func
            name = fn.id if isinstance(fn, ast.Name) else (fn.attr if isinstance(fn, ast.Attribute) else "")
            if name == "calcsize" and e.args:
                return struct.calcsize(f(e.args[0]))
            if name == "compile" and e.args and isinstance(fn, ast.Attribute) \
                    and isinstance(fn.value, ast.Name) and fn.value.id == "re":
                return ("re", f(e.args[0]), [ast.unparse(a) for a in e.args[1:]])
            if name in ("len",) and len(e.args) == 1:
                return len(f(e.args[0]))
            if name in ("int", "str", "bytes", "frozenset", "set", "tuple", "list", "sorted", "max", "min") \
                    and not e.keywords:
                args = [f(a) for a in e.args]
                try:
                    return {"int": int, "str": str, "bytes": bytes, "frozenset": frozenset, "set": set,
                            "tuple": tuple, "list": list, "sorted": sorted, "max": max, "min": min}[name](*args)
                except Exception as ex:
                    raise NotConstant(str(ex))
            if isinstance(fn, ast.Attribute) and name in ("encode", "decode", "lower", "upper", "join", "format",
                                                          "replace", "strip"):
                recv = f(fn.value)
                args = [f(a) for a in e.args]
                try:
                    return getattr(recv, name)(*args)
                except Exception as ex:
                    raise NotConstant(str(ex))
            # constexpr evaluation of a package-local pure helper (bounded AST interpreter)
            target = self.idx.resolve_expr(m, fn) if isinstance(fn, (ast.Name, ast.Attribute)) else None
            if isinstance(target, FuncInfo) and not e.keywords:
                args = [f(a) for a in e.args]
                return ConstEval(self, target.module).call(target, args, {})
            raise NotConstant(ast.unparse(e))
        if isinstance(e, ast.Subscript):
            v = f(e.value)
            s = e.slice
            try:
                if isinstance(s, ast.Slice):
                    return v[(f(s.lower) if s.lower else None):(f(s.upper) if s.upper else None)]
                return v[f(s)]
            except NotConstant:
                raise
            except Exception as ex:
                raise NotConstant(str(ex))
        if isinstance(e, (ast.ListComp, ast.GeneratorExp, ast.SetComp, ast.DictComp)):
            return ConstEval(self, m).expr(e, dict(local or {}))
        raise NotConstant(type(e).__name__)

    def name(self, name: str, m: Module, cls: Optional[ClassInfo]):
        if cls is not None:
            a = cls.lookup_attr(name)
            if a is not None:
                return self.class_attr(cls, name)
        key = (m.name, name)
        if key in self._busy:
            raise NotConstant("cycle " + name)
        vals = m.assigns.get(name)
        if vals:
            if len(vals) > 1:
                # several module-level bindings: fold all, must agree
                self._busy.add(key)
                try:
                    folded = [self.fold(v, m) for v in vals]
                finally:
                    self._busy.discard(key)
                if all(x == folded[0] for x in folded):
                    return folded[0]
                raise NotConstant("%s.%s has %d different bindings" % (m.name, name, len(vals)))
            self._busy.add(key)
            try:
                return self.fold(vals[0], m)
            finally:
                self._busy.discard(key)
        if name in m.imports:
            tgt = m.imports[name]
            mod, _, nm = tgt.rpartition(".")
            m2 = self.idx.modules.get(mod)
            if m2 is not None:
                return self.name(nm, m2, None)
        raise NotConstant("%s.%s" % (m.name, name))

    def class_attr(self, cls: ClassInfo, name: str):
        for c in cls.mro():
            if name in c.attrs:
                return self.fold(c.attrs[name][-1], c.module, c)
        raise NotConstant("%s.%s" % (cls.qual, name))

    def module_const(self, modname: str, name: str):
        m = self.idx.module(modname if modname.startswith("allmydata") else "allmydata." + modname)
        try:
            return self.name(name, m, None)
        except NotConstant as e:
            raise AnalysisError("cannot fold %s.%s: %s" % (modname, name, e))


class _Return(Exception):
    def __init__(self, v):
        self.v = v


class ConstEval:
    """Bounded interpreter for *pure* helper functions of the package, used
    only to fold module-level constants that the code computes with a helper
    at import time (e.g. util.base32's character classes).  Supports the
    statement kinds such helpers use; anything else -> NotConstant."""

    MAX_STEPS = 200000

    def __init__(self, folder: "Folder", module: Module):
        self.folder = folder
        self.module = module
        self.steps = 0

    def call(self, fn: FuncInfo, args, kwargs):
        a = fn.node.args
        names = [x.arg for x in a.args]
        if a.vararg or a.kwarg or a.kwonlyargs and False:
            raise NotConstant("varargs in %s" % fn.qual)
        env: Dict[str, Any] = {}
        defaults = list(a.defaults)
        for i, nm in enumerate(names):
            if i < len(args):
                env[nm] = args[i]
            elif nm in kwargs:
                env[nm] = kwargs[nm]
            else:
                di = i - (len(names) - len(defaults))
                if di < 0:
                    raise NotConstant("missing argument %s" % nm)
                env[nm] = self.expr(defaults[di], {})
        for k in a.kwonlyargs:
            if k.arg in kwargs:
                env[k.arg] = kwargs[k.arg]
        try:
            self.block(fn.node.body, env)
        except _Return as r:
            return r.v
        return None

    def tick(self):
        self.steps += 1
        if self.steps > self.MAX_STEPS:
            raise NotConstant("constexpr step limit")

    def block(self, stmts, env):
        for st in stmts:
            self.stmt(st, env)

    def stmt(self, st, env):
        self.tick()
        if isinstance(st, ast.Expr):
            if isinstance(st.value, ast.Constant):
                return
            if isinstance(st.value, ast.Call) and getattr(st.value.func, "id", getattr(st.value.func, "attr", "")) in (
                    "precondition", "_assert", "postcondition"):
                return
            self.expr(st.value, env)
        elif isinstance(st, ast.Assign):
            v = self.expr(st.value, env)
            for t in st.targets:
                self.assign(t, v, env)
        elif isinstance(st, ast.AugAssign):
            cur = self.expr(st.target, env)
            v = self.expr(ast.BinOp(left=ast.Constant(value=cur), op=st.op, right=st.value), env)
            self.assign(st.target, v, env)
        elif isinstance(st, ast.Return):
            raise _Return(self.expr(st.value, env) if st.value is not None else None)
        elif isinstance(st, ast.If):
            self.block(st.body if self.expr(st.test, env) else st.orelse, env)
        elif isinstance(st, ast.While):
            while self.expr(st.test, env):
                self.tick()
                self.block(st.body, env)
        elif isinstance(st, ast.For):
            for x in self.expr(st.iter, env):
                self.tick()
                self.assign(st.target, x, env)
                self.block(st.body, env)
        elif isinstance(st, ast.Assert):
            if not self.expr(st.test, env):
                raise NotConstant("assertion fails in constexpr")
        elif isinstance(st, ast.Pass):
            return
        else:
            raise NotConstant("constexpr: unsupported statement %s" % type(st).__name__)

    def assign(self, t, v, env):
        if isinstance(t, ast.Name):
            env[t.id] = v
        elif isinstance(t, ast.Subscript):
            self.expr(t.value, env)[self.expr(t.slice, env)] = v
        elif isinstance(t, (ast.Tuple, ast.List)):
            vs = list(v)
            if len(vs) != len(t.elts):
                raise NotConstant("unpack")
            for tt, vv in zip(t.elts, vs):
                self.assign(tt, vv, env)
        else:
            raise NotConstant("constexpr: unsupported target")

    _BIN = {ast.Add: lambda a, b: a + b, ast.Sub: lambda a, b: a - b, ast.Mult: lambda a, b: a * b,
            ast.FloorDiv: lambda a, b: a // b, ast.Mod: lambda a, b: a % b, ast.Pow: lambda a, b: a ** b,
            ast.LShift: lambda a, b: a << b, ast.RShift: lambda a, b: a >> b, ast.BitOr: lambda a, b: a | b,
            ast.BitAnd: lambda a, b: a & b, ast.BitXor: lambda a, b: a ^ b, ast.Div: lambda a, b: a / b}
    _CMP = {ast.Eq: lambda a, b: a == b, ast.NotEq: lambda a, b: a != b, ast.Lt: lambda a, b: a < b,
            ast.LtE: lambda a, b: a <= b, ast.Gt: lambda a, b: a > b, ast.GtE: lambda a, b: a >= b,
            ast.In: lambda a, b: a in b, ast.NotIn: lambda a, b: a not in b, ast.Is: lambda a, b: a is b,
            ast.IsNot: lambda a, b: a is not b}
    _BUILTINS = {"len": len, "range": range, "bytes": bytes, "int": int, "str": str, "list": list, "dict": dict,
                 "set": set, "tuple": tuple, "min": min, "max": max, "sorted": sorted, "enumerate": enumerate,
                 "zip": zip, "abs": abs, "bool": bool, "chr": chr, "ord": ord, "reversed": reversed, "sum": sum,
                 "any": any, "all": all, "frozenset": frozenset, "divmod": divmod,
                 "True": True, "False": False, "None": None}
    _METHODS = {"append", "extend", "join", "encode", "decode", "lower", "upper", "get", "keys", "values", "items",
                "startswith", "endswith", "strip", "rstrip", "lstrip", "split", "replace", "format", "copy", "add",
                "index", "find", "count", "isdigit"}

    def expr(self, e, env):
        self.tick()
        try:
            return self._expr(e, env)
        except (NotConstant, _Return):
            raise
        except RecursionError:
            raise NotConstant("constexpr recursion")
        except Exception as ex:
            raise NotConstant("constexpr: %s" % ex)

    def _expr(self, e, env):
        if isinstance(e, ast.Constant):
            return e.value
        if isinstance(e, ast.Name):
            if e.id in env:
                return env[e.id]
            if e.id in self._BUILTINS:
                return self._BUILTINS[e.id]
            return self.folder.name(e.id, self.module, None)
        if isinstance(e, ast.BinOp):
            return self._BIN[type(e.op)](self.expr(e.left, env), self.expr(e.right, env))
        if isinstance(e, ast.UnaryOp):
            v = self.expr(e.operand, env)
            return {ast.USub: lambda x: -x, ast.Not: lambda x: not x, ast.UAdd: lambda x: +x,
                    ast.Invert: lambda x: ~x}[type(e.op)](v)
        if isinstance(e, ast.BoolOp):
            if isinstance(e.op, ast.And):
                v = True
                for x in e.values:
                    v = self.expr(x, env)
                    if not v:
                        return v
                return v
            v = False
            for x in e.values:
                v = self.expr(x, env)
                if v:
                    return v
            return v
        if isinstance(e, ast.Compare):
            l = self.expr(e.left, env)
            for op, c in zip(e.ops, e.comparators):
                r = self.expr(c, env)
                if not self._CMP[type(op)](l, r):
                    return False
                l = r
            return True
        if isinstance(e, ast.IfExp):
            return self.expr(e.body if self.expr(e.test, env) else e.orelse, env)
        if isinstance(e, ast.Tuple):
            return tuple(self.expr(x, env) for x in e.elts)
        if isinstance(e, ast.List):
            return [self.expr(x, env) for x in e.elts]
        if isinstance(e, ast.Dict):
            return {self.expr(k, env): self.expr(v, env) for k, v in zip(e.keys, e.values)}
        if isinstance(e, ast.Subscript):
            v = self.expr(e.value, env)
            s = e.slice
            if isinstance(s, ast.Slice):
                return v[(self.expr(s.lower, env) if s.lower else None):(self.expr(s.upper, env) if s.upper else None):
                         (self.expr(s.step, env) if s.step else None)]
            return v[self.expr(s, env)]
        if isinstance(e, ast.Call):
            f = e.func
            args = [self.expr(a, env) for a in e.args]
            kwargs = {k.arg: self.expr(k.value, env) for k in e.keywords if k.arg}
            if isinstance(f, ast.Name) and f.id not in env:
                if f.id in self._BUILTINS:
                    return self._BUILTINS[f.id](*args, **kwargs)
                tgt = self.folder.idx.resolve_name(self.module, f.id)
                if isinstance(tgt, FuncInfo):
                    sub = ConstEval(self.folder, tgt.module)
                    sub.steps = self.steps
                    v = sub.call(tgt, args, kwargs)
                    self.steps = sub.steps
                    return v
                raise NotConstant("constexpr: call of %s" % f.id)
            if isinstance(f, ast.Attribute):
                if f.attr in self._METHODS:
                    recv = self.expr(f.value, env)
                    if isinstance(recv, (bytes, str, list, dict, set, tuple)):
                        return getattr(recv, f.attr)(*args, **kwargs)
                tgt = self.folder.idx.resolve_expr(self.module, f)
                if isinstance(tgt, FuncInfo):
                    sub = ConstEval(self.folder, tgt.module)
                    sub.steps = self.steps
                    v = sub.call(tgt, args, kwargs)
                    self.steps = sub.steps
                    return v
            raise NotConstant("constexpr: call %s" % ast.unparse(f))
        if isinstance(e, (ast.ListComp, ast.GeneratorExp, ast.SetComp, ast.DictComp)):
            out = []

            def rec(gi, env1):
                if gi == len(e.generators):
                    if isinstance(e, ast.DictComp):
                        out.append((self.expr(e.key, env1), self.expr(e.value, env1)))
                    else:
                        out.append(self.expr(e.elt, env1))
                    return
                g = e.generators[gi]
                if g.is_async:
                    raise NotConstant("constexpr: async comprehension")
                for x in self.expr(g.iter, env1):
                    self.tick()
                    env2 = dict(env1)
                    self.assign(g.target, x, env2)
                    if all(self.expr(c, env2) for c in g.ifs):
                        rec(gi + 1, env2)
            rec(0, env)
            if isinstance(e, ast.SetComp):
                return set(out)
            if isinstance(e, ast.DictComp):
                return dict(out)
            return out          # a generator expression is consumed once by its caller: a list stands in for it
        raise NotConstant("constexpr: unsupported expression %s" % type(e).__name__)


# --------------------------------------------------------------------- regex
def regex_ast(pattern, flags: int = 0):
    """Parsed regex as a nested list of (opcode-name, argument)."""
    if isinstance(pattern, tuple) and pattern and pattern[0] == "re":
        pattern = pattern[1]
    p = sre_parse.parse(pattern, flags)
    return _conv(p)


def _conv(p):
    out = []
    for op, av in p:
        name = str(op)
        if name in ("SUBPATTERN",):
            group, add, dele, sub = av
            out.append((name, (group, _conv(sub))))
        elif name in ("BRANCH",):
            out.append((name, [_conv(x) for x in av[1]]))
        elif name in ("MAX_REPEAT", "MIN_REPEAT", "POSSESSIVE_REPEAT"):
            lo, hi, sub = av
            hi = None if hi == sre_constants.MAXREPEAT else hi
            out.append((name, (lo, hi, _conv(sub))))
        elif name == "IN":
            out.append((name, [(str(a), (str(b) if not isinstance(b, (int, tuple)) else b)) for a, b in av]))
        elif name == "AT":
            out.append((name, str(av)))
        elif name in ("LITERAL", "NOT_LITERAL"):
            out.append((name, av))
        elif name == "ANY":
            out.append((name, None))
        elif name in ("ASSERT", "ASSERT_NOT"):
            out.append((name, (av[0], _conv(av[1]))))
        elif name == "ATOMIC_GROUP":
            out.append((name, _conv(av)))
        elif name == "GROUPREF":
            out.append((name, av))
        else:
            out.append((name, repr(av)))
    return out


def regex_starts_anchored(r) -> bool:
    return bool(r) and r[0] == ("AT", "AT_BEGINNING") or bool(r) and r[0] == ("AT", "AT_BEGINNING_STRING")


def regex_end_anchor(r) -> Optional[str]:
    """'AT_END' ($), 'AT_END_STRING' (\\Z) or None."""
    if r and r[-1][0] == "AT" and r[-1][1] in ("AT_END", "AT_END_STRING"):
        return r[-1][1]
    return None


def regex_literal_prefix(r) -> str:
    s = []
    for op, av in r:
        if op == "AT":
            continue
        if op == "LITERAL":
            s.append(chr(av))
        else:
            break
    return "".join(s)


def regex_finite_language(r, limit: int = 4096) -> Optional[set]:
    """Enumerate the language of a regex fragment when finite & small (case as written)."""
    def lang(items) -> Optional[set]:
        cur = {""}
        for op, av in items:
            if op == "LITERAL":
                nxt = {chr(av)}
            elif op == "AT":
                continue
            elif op == "IN":
                nxt = set()
                for a, b in av:
                    if a == "LITERAL":
                        nxt.add(chr(b))
                    elif a == "RANGE":
                        lo, hi = b
                        if hi - lo > 64:
                            return None
                        nxt.update(chr(c) for c in range(lo, hi + 1))
                    else:
                        return None
            elif op == "SUBPATTERN":
                nxt = lang(av[1])
            elif op == "BRANCH":
                nxt = set()
                for alt in av:
                    l = lang(alt)
                    if l is None:
                        return None
                    nxt |= l
            elif op in ("MAX_REPEAT", "MIN_REPEAT"):
                lo, hi, sub = av
                if hi is None or hi > 4:
                    return None
                base = lang(sub)
                if base is None:
                    return None
                nxt = set()
                for k in range(lo, hi + 1):
                    ws = {""}
                    for _ in range(k):
                        ws = {a + b for a in ws for b in base}
                    nxt |= ws
            else:
                return None
            if nxt is None:
                return None
            cur = {a + b for a in cur for b in nxt}
            if len(cur) > limit:
                return None
        return cur
    return lang(r)


# -------------------------------------------------------------------- struct
def struct_fields(fmt: str) -> List[Tuple[str, int]]:
    """Expand a struct format into [(code, count_or_size)], one per packed value."""
    if isinstance(fmt, bytes):
        fmt = fmt.decode()
    out = []
    i = 0
    if fmt and fmt[0] in "@=<>!":
        i = 1
    num = ""
    while i < len(fmt):
        c = fmt[i]
        if c.isdigit():
            num += c
        elif c.isspace():
            pass
        else:
            n = int(num) if num else 1
            if c in "sp":
                out.append((c, n))
            elif c == "x":
                pass
            else:
                out.extend([(c, 1)] * n)
            num = ""
        i += 1
    return out


def struct_value_count(fmt) -> int:
    return len(struct_fields(fmt))


# ------------------------------------------------------------ % / format tpl
_PCT = re.compile(r"%(?:\((?P<key>[^)]*)\))?[#0\- +]*(?:\*|\d+)?(?:\.(?:\*|\d+))?[hlL]?(?P<conv>[diouxXeEfFgGcrsab%])")


def percent_tokens(tpl) -> List[Tuple[str, str]]:
    """[('lit', text) | ('conv', 'd'/'s'/...)] for a %-format template."""
    if isinstance(tpl, bytes):
        tpl = tpl.decode("latin-1")
    out = []
    pos = 0
    for m in _PCT.finditer(tpl):
        if m.start() > pos:
            out.append(("lit", tpl[pos:m.start()]))
        if m.group("conv") == "%":
            out.append(("lit", "%"))
        else:
            out.append(("conv", m.group("conv")))
        pos = m.end()
    if pos < len(tpl):
        out.append(("lit", tpl[pos:]))
    return out


def get_folder(idx: Index) -> Folder:
    f = getattr(idx, "_folder", None)
    if f is None:
        f = Folder(idx)
        idx._folder = f
    return f
