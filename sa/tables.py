"""E5: constant folding and table extraction (struct formats, regexes, format
templates, dict keys).  Nothing from the package is imported; expressions are
folded from their ASTs."""
from __future__ import annotations

import ast
import re
import struct
from typing import Any, Dict, List, Optional, Tuple

from .index import AnalysisError, ClassInfo, FuncInfo, Index, Module

try:  # Python >= 3.11
    import re._parser as sre_parse          # type: ignore
    import re._constants as sre_constants   # type: ignore
except ImportError:  # pragma: no cover
    import sre_parse                        # type: ignore
    import sre_constants                    # type: ignore


class NotConstant(Exception):
    pass


class Folder:
    """Folds expressions at module / class scope to Python values."""

    def __init__(self, idx: Index):
        self.idx = idx
        self._busy = set()

    def fold(self, e: ast.AST, m: Module, cls: Optional[ClassInfo] = None, local: Optional[Dict[str, Any]] = None):
        f = lambda x: self.fold(x, m, cls, local)
        if isinstance(e, ast.Constant):
            return e.value
        if isinstance(e, ast.Name):
            if local and e.id in local:
                return local[e.id]
            return self.name(e.id, m, cls)
        if isinstance(e, ast.Attribute):
            # self.X / cls.X / Class.X / module.X
            if isinstance(e.value, ast.Name) and e.value.id in ("self", "cls") and cls is not None:
                return self.class_attr(cls, e.attr)
            r = self.idx.resolve_expr(m, e.value)
            if isinstance(r, ClassInfo):
                return self.class_attr(r, e.attr)
            if isinstance(r, Module):
                return self.name(e.attr, r, None)
            raise NotConstant(ast.unparse(e))
        if isinstance(e, ast.BinOp):
            l, r = f(e.left), f(e.right)
            try:
                if isinstance(e.op, ast.Add):
                    return l + r
                if isinstance(e.op, ast.Sub):
                    return l - r
                if isinstance(e.op, ast.Mult):
                    return l * r
                if isinstance(e.op, ast.FloorDiv):
                    return l // r
                if isinstance(e.op, ast.Mod):
                    return l % r
                if isinstance(e.op, ast.Pow):
                    return l ** r
                if isinstance(e.op, ast.LShift):
                    return l << r
                if isinstance(e.op, ast.BitOr):
                    return l | r
            except Exception as ex:
                raise NotConstant(str(ex))
            raise NotConstant(ast.unparse(e))
        if isinstance(e, ast.UnaryOp) and isinstance(e.op, ast.USub):
            return -f(e.operand)
        if isinstance(e, ast.Tuple):
            return tuple(f(x) for x in e.elts)
        if isinstance(e, ast.List):
            return [f(x) for x in e.elts]
        if isinstance(e, ast.Set):
            return set(f(x) for x in e.elts)
        if isinstance(e, ast.Dict):
            return {f(k): f(v) for k, v in zip(e.keys, e.values)}
        if isinstance(e, ast.JoinedStr):
            parts = []
            for v in e.values:
                if isinstance(v, ast.Constant):
                    parts.append(v.value)
                elif isinstance(v, ast.FormattedValue):
                    parts.append(format(f(v.value), f(v.format_spec) if v.format_spec else ""))
            return "".join(parts)
        if isinstance(e, ast.Call):
            fn = e.func
            name = fn.id if isinstance(fn, ast.Name) else (fn.attr if isinstance(fn, ast.Attribute) else "")
            if name == "calcsize" and e.args:
                return struct.calcsize(f(e.args[0]))
            if name == "compile" and e.args and isinstance(fn, ast.Attribute) \
                    and isinstance(fn.value, ast.Name) and fn.value.id == "re":
                return ("re", f(e.args[0]), [ast.unparse(a) for a in e.args[1:]])
            if name in ("len",) and len(e.args) == 1:
                return len(f(e.args[0]))
            if name in ("int", "str", "bytes", "frozenset", "set", "tuple", "list", "sorted", "max", "min") \
                    and not e.keywords:
                args = [f(a) for a in e.args]
                try:
                    return {"int": int, "str": str, "bytes": bytes, "frozenset": frozenset, "set": set,
                            "tuple": tuple, "list": list, "sorted": sorted, "max": max, "min": min}[name](*args)
                except Exception as ex:
                    raise NotConstant(str(ex))
            if isinstance(fn, ast.Attribute) and name in ("encode", "decode", "lower", "upper", "join", "format",
                                                          "replace", "strip"):
                recv = f(fn.value)
                args = [f(a) for a in e.args]
                try:
                    return getattr(recv, name)(*args)
                except Exception as ex:
                    raise NotConstant(str(ex))
            raise NotConstant(ast.unparse(e))
        if isinstance(e, ast.Subscript):
            v = f(e.value)
            s = e.slice
            try:
                if isinstance(s, ast.Slice):
                    return v[(f(s.lower) if s.lower else None):(f(s.upper) if s.upper else None)]
                return v[f(s)]
            except NotConstant:
                raise
            except Exception as ex:
                raise NotConstant(str(ex))
        raise NotConstant(type(e).__name__)

    def name(self, name: str, m: Module, cls: Optional[ClassInfo]):
        if cls is not None:
            a = cls.lookup_attr(name)
            if a is not None:
                return self.class_attr(cls, name)
        key = (m.name, name)
        if key in self._busy:
            raise NotConstant("cycle " + name)
        vals = m.assigns.get(name)
        if vals:
            if len(vals) > 1:
                # several module-level bindings: fold all, must agree
                self._busy.add(key)
                try:
                    folded = [self.fold(v, m) for v in vals]
                finally:
                    self._busy.discard(key)
                if all(x == folded[0] for x in folded):
                    return folded[0]
                raise NotConstant("%s.%s has %d different bindings" % (m.name, name, len(vals)))
            self._busy.add(key)
            try:
                return self.fold(vals[0], m)
            finally:
                self._busy.discard(key)
        if name in m.imports:
            tgt = m.imports[name]
            mod, _, nm = tgt.rpartition(".")
            m2 = self.idx.modules.get(mod)
            if m2 is not None:
                return self.name(nm, m2, None)
        raise NotConstant("%s.%s" % (m.name, name))

    def class_attr(self, cls: ClassInfo, name: str):
        for c in cls.mro():
            if name in c.attrs:
                return self.fold(c.attrs[name][-1], c.module, c)
        raise NotConstant("%s.%s" % (cls.qual, name))

    def module_const(self, modname: str, name: str):
        m = self.idx.module(modname if modname.startswith("allmydata") else "allmydata." + modname)
        try:
            return self.name(name, m, None)
        except NotConstant as e:
            raise AnalysisError("cannot fold %s.%s: %s" % (modname, name, e))


# --------------------------------------------------------------------- regex
def regex_ast(pattern, flags: int = 0):
    """Parsed regex as a nested list of (opcode-name, argument)."""
    if isinstance(pattern, tuple) and pattern and pattern[0] == "re":
        pattern = pattern[1]
    p = sre_parse.parse(pattern, flags)
    return _conv(p)


def _conv(p):
    out = []
    for op, av in p:
        name = str(op)
        if name in ("SUBPATTERN",):
            group, add, dele, sub = av
            out.append((name, (group, _conv(sub))))
        elif name in ("BRANCH",):
            out.append((name, [_conv(x) for x in av[1]]))
        elif name in ("MAX_REPEAT", "MIN_REPEAT", "POSSESSIVE_REPEAT"):
            lo, hi, sub = av
            hi = None if hi == sre_constants.MAXREPEAT else hi
            out.append((name, (lo, hi, _conv(sub))))
        elif name == "IN":
            out.append((name, [(str(a), (str(b) if not isinstance(b, (int, tuple)) else b)) for a, b in av]))
        elif name == "AT":
            out.append((name, str(av)))
        elif name in ("LITERAL", "NOT_LITERAL"):
            out.append((name, av))
        elif name == "ANY":
            out.append((name, None))
        elif name in ("ASSERT", "ASSERT_NOT"):
            out.append((name, (av[0], _conv(av[1]))))
        elif name == "ATOMIC_GROUP":
            out.append((name, _conv(av)))
        elif name == "GROUPREF":
            out.append((name, av))
        else:
            out.append((name, repr(av)))
    return out


def regex_starts_anchored(r) -> bool:
    return bool(r) and r[0] == ("AT", "AT_BEGINNING") or bool(r) and r[0] == ("AT", "AT_BEGINNING_STRING")


def regex_end_anchor(r) -> Optional[str]:
    """'AT_END' ($), 'AT_END_STRING' (\\Z) or None."""
    if r and r[-1][0] == "AT" and r[-1][1] in ("AT_END", "AT_END_STRING"):
        return r[-1][1]
    return None


def regex_literal_prefix(r) -> str:
    s = []
    for op, av in r:
        if op == "AT":
            continue
        if op == "LITERAL":
            s.append(chr(av))
        else:
            break
    return "".join(s)


def regex_finite_language(r, limit: int = 4096) -> Optional[set]:
    """Enumerate the language of a regex fragment when finite & small (case as written)."""
    def lang(items) -> Optional[set]:
        cur = {""}
        for op, av in items:
            if op == "LITERAL":
                nxt = {chr(av)}
            elif op == "AT":
                continue
            elif op == "IN":
                nxt = set()
                for a, b in av:
                    if a == "LITERAL":
                        nxt.add(chr(b))
                    elif a == "RANGE":
                        lo, hi = b
                        if hi - lo > 64:
                            return None
                        nxt.update(chr(c) for c in range(lo, hi + 1))
                    else:
                        return None
            elif op == "SUBPATTERN":
                nxt = lang(av[1])
            elif op == "BRANCH":
                nxt = set()
                for alt in av:
                    l = lang(alt)
                    if l is None:
                        return None
                    nxt |= l
            elif op in ("MAX_REPEAT", "MIN_REPEAT"):
                lo, hi, sub = av
                if hi is None or hi > 4:
                    return None
                base = lang(sub)
                if base is None:
                    return None
                nxt = set()
                for k in range(lo, hi + 1):
                    ws = {""}
                    for _ in range(k):
                        ws = {a + b for a in ws for b in base}
                    nxt |= ws
            else:
                return None
            if nxt is None:
                return None
            cur = {a + b for a in cur for b in nxt}
            if len(cur) > limit:
                return None
        return cur
    return lang(r)


# -------------------------------------------------------------------- struct
def struct_fields(fmt: str) -> List[Tuple[str, int]]:
    """Expand a struct format into [(code, count_or_size)], one per packed value."""
    if isinstance(fmt, bytes):
        fmt = fmt.decode()
    out = []
    i = 0
    if fmt and fmt[0] in "@=<>!":
        i = 1
    num = ""
    while i < len(fmt):
        c = fmt[i]
        if c.isdigit():
            num += c
        elif c.isspace():
            pass
        else:
            n = int(num) if num else 1
            if c in "sp":
                out.append((c, n))
            elif c == "x":
                pass
            else:
                out.extend([(c, 1)] * n)
            num = ""
        i += 1
    return out


def struct_value_count(fmt) -> int:
    return len(struct_fields(fmt))


# ------------------------------------------------------------ % / format tpl
_PCT = re.compile(r"%(?:\((?P<key>[^)]*)\))?[#0\- +]*(?:\*|\d+)?(?:\.(?:\*|\d+))?[hlL]?(?P<conv>[diouxXeEfFgGcrsab%])")


def percent_tokens(tpl) -> List[Tuple[str, str]]:
    """[('lit', text) | ('conv', 'd'/'s'/...)] for a %-format template."""
    if isinstance(tpl, bytes):
        tpl = tpl.decode("latin-1")
    out = []
    pos = 0
    for m in _PCT.finditer(tpl):
        if m.start() > pos:
            out.append(("lit", tpl[pos:m.start()]))
        if m.group("conv") == "%":
            out.append(("lit", "%"))
        else:
            out.append(("conv", m.group("conv")))
        pos = m.end()
    if pos < len(tpl):
        out.append(("lit", tpl[pos:]))
    return out


def get_folder(idx: Index) -> Folder:
    f = getattr(idx, "_folder", None)
    if f is None:
        f = Folder(idx)
        idx._folder = f
    return f
